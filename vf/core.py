"""Worker-side core: case results, signatures, the Hypothesis driver with root-cause bucketing,
journalling for crash isolation, counters for evidence."""
import hashlib
import json
import os
import random as _pyrandom  # only used for reservoir sampling of evidence samples (never inside a property)
import sys
import time
import traceback

import numpy as np


def canon(obj):
    return json.dumps(obj, sort_keys=True, separators=(",", ":"), default=_default)


def _default(o):
    if isinstance(o, (np.integer,)):
        return int(o)
    if isinstance(o, (np.floating,)):
        return float(o)
    if isinstance(o, np.ndarray):
        return o.tolist()
    if isinstance(o, (set, frozenset, tuple)):
        return list(o)
    raise TypeError(f"not JSON-able: {type(o)}")


def jsonable(obj):
    return json.loads(canon(obj))


def case_hash(case):
    return int.from_bytes(hashlib.blake2b(canon(case).encode(), digest_size=8).digest(), "little") >> 1


def sig_str(sig):
    if isinstance(sig, str):
        return sig
    return "|".join(str(s) for s in sig)


class Fail:
    __slots__ = ("sig", "detail")

    def __init__(self, sig, detail=None):
        self.sig = sig_str(sig)
        self.detail = detail

    def to_json(self):
        return {"signature": self.sig, "detail": jsonable(self.detail) if self.detail is not None else None}


class R:
    """Result of executing one case."""
    __slots__ = ("fails", "nontrivial", "labels", "skip")

    def __init__(self):
        self.fails = []
        self.nontrivial = False
        self.labels = []
        self.skip = None

    def fail(self, sig, **detail):
        self.fails.append(Fail(sig, detail))
        return self

    def label(self, *labels):
        self.labels.extend(labels)
        return self


class HarnessError(Exception):
    pass


def classify_exception(exc):
    """(is_from_code_under_test, signature) for an exception that escaped a property body."""
    tb = traceback.extract_tb(exc.__traceback__)
    repo = os.environ.get("VERIF_REPO", "/repo")
    inner = None
    for fr in tb:
        fn = fr.filename
        if fn.startswith(repo) or fn.startswith("bioscrape/") or fn.startswith("lineage/") or "/bioscrape/" in fn:
            inner = fr
    if inner is None:
        return False, None
    return True, f"exception|{type(exc).__name__}|{os.path.basename(inner.filename)}:{inner.name}"


class _Found(Exception):
    pass


class Ctx:
    def __init__(self, job):
        self.job = job
        self.prop = job["prop"]
        self.tier = job["tier"]
        self.base_seed = int(job["seed"])
        self.shard = int(job.get("shard", 0))
        self.nshards = int(job.get("nshards", 1))
        self.muted = set(job.get("muted", []))
        self.journal_path = job.get("journal")
        self.budget_s = float(job.get("budget_s", 1e9))
        self.t0 = self.t_start = time.time()
        self.evaluations = 0
        self.hashes = set()
        self.labels = {}
        self.samples = []
        self._nsample_seen = 0
        self._rs = _pyrandom.Random(12345 + self.shard)
        self.violations = []       # [{signature, case, detail, sub}]
        self.excluded = {}         # signature -> count (muted / known findings met during search)
        self.skipped = {}          # reason -> count
        self.budget_hit = False
        self.notes = []
        self.sub_counts = {}

    # ---- seeds -------------------------------------------------------------------------------
    def seed_for(self, name):
        h = hashlib.blake2b(f"{self.base_seed}/{self.prop}/{self.shard}/{name}".encode(), digest_size=8).digest()
        return int.from_bytes(h, "little") >> 1

    @property
    def thorough(self):
        return self.tier == "thorough"

    def share(self, total):
        """This shard's share of a total number of cases."""
        base, rem = divmod(int(total), self.nshards)
        return base + (1 if self.shard < rem else 0)

    # ---- bookkeeping -------------------------------------------------------------------------
    def out_of_budget(self):
        if time.time() - self.t0 > self.budget_s:
            self.budget_hit = True
            return True
        return False

    def _journal(self, case):
        if self.journal_path:
            with open(self.journal_path, "w") as f:
                f.write(canon(case))

    def _account(self, sub, case, res):
        self.evaluations += 1
        self.sub_counts[sub] = self.sub_counts.get(sub, 0) + 1
        for lb in res.labels:
            self.labels[lb] = self.labels.get(lb, 0) + 1
        if res.skip:
            self.skipped[res.skip] = self.skipped.get(res.skip, 0) + 1
        if res.nontrivial:
            h = case_hash(case)
            if h not in self.hashes:
                self.hashes.add(h)
                self._nsample_seen += 1
                if len(self.samples) < 6:
                    self.samples.append(jsonable(case))
                else:
                    j = self._rs.randrange(self._nsample_seen)
                    if j < 6:
                        self.samples[j] = jsonable(case)

    def execute(self, check, case):
        """Run check(case) -> R, turning escaped exceptions of the code under test into failures."""
        self._journal(case)
        try:
            if isinstance(case, dict) and case.get("kind") == "_repeat":
                # replay form of a case whose verdict varied between executions in one process: run it several times
                res = None
                for _ in range(int(case.get("times", 8))):
                    res = check(case["case"])
                    if res.fails:
                        break
            else:
                res = check(case)
        except HarnessError:
            raise
        except Exception as exc:  # classified, never swallowed
            from_cut, sig = classify_exception(exc)
            if not from_cut:
                raise HarnessError(f"exception inside the harness for case {canon(case)[:2000]}:\n"
                                   + "".join(traceback.format_exception(exc))) from exc
            res = R()
            res.fail(sig, message=str(exc)[:500], traceback="".join(traceback.format_exception(exc))[-1500:])
        return res

    def _split(self, res):
        live = []
        for f in res.fails:
            if f.sig in self.muted:
                self.excluded[f.sig] = self.excluded.get(f.sig, 0) + 1
            else:
                live.append(f)
        return live

    def _add_violation(self, sub, case, fail):
        self.violations.append({"sub": sub, "signature": fail.sig, "case": jsonable(case),
                                "detail": jsonable(fail.detail)})

    # ---- enumeration (no Hypothesis) ----------------------------------------------------------
    def run_cases(self, sub, cases, check, sharded=True, max_sigs=8):
        self.t0 = time.time()      # the budget is per sub-search: a slow first family never starves the later ones
        best = {}
        for i, case in enumerate(cases):
            if sharded and (i % self.nshards) != self.shard:
                continue
            if self.out_of_budget():
                break
            res = self.execute(check, case)
            self._account(sub, case, res)
            for f in self._split(res):
                size = len(canon(case))
                if f.sig not in best or size < best[f.sig][0]:
                    if f.sig in best or len(best) < max_sigs:
                        best[f.sig] = (size, case, f)
        for sig, (_, case, f) in best.items():
            self._add_violation(sub, case, f)
            self.muted.add(sig)

    # ---- Hypothesis driver --------------------------------------------------------------------
    def run_hypothesis(self, sub, strategy, check, max_examples, shrink=True, max_sigs=8, stateful=None):
        import hypothesis
        from hypothesis import HealthCheck, Phase, given, settings

        if max_examples <= 0:
            return
        self.t0 = time.time()      # the budget is per sub-search: a slow first family never starves the later ones
        phases = [Phase.explicit, Phase.generate]
        if shrink:
            phases.append(Phase.shrink)
        for _round in range(max_sigs):
            state = {"target": None, "last": None}
            ctx = self

            def body(case):
                # the budget only stops *generation*; once a failure is being shrunk every execution must be honest,
                # otherwise Hypothesis sees the final replay pass and reports the case as flaky
                if state["target"] is None and ctx.out_of_budget():
                    return
                res = ctx.execute(check, case)
                ctx._account(sub, case, res)
                live = ctx._split(res)
                if state["target"] is None and live:
                    state["target"] = live[0].sig
                hit = [f for f in live if f.sig == state["target"]]
                if hit:
                    state["last"] = (case, hit[0])
                    raise _Found(hit[0].sig)

            test = given(strategy)(body)
            test = settings(max_examples=int(max_examples), database=None, deadline=None,
                            report_multiple_bugs=False, derandomize=False, phases=phases,
                            suppress_health_check=[HealthCheck.too_slow, HealthCheck.data_too_large],
                            print_blob=False)(test)
            test = hypothesis.seed(self.seed_for(sub))(test)
            try:
                test()
            except _Found:
                case, f = state["last"]
                self._add_violation(sub, case, f)
                self.muted.add(f.sig)
                continue
            except hypothesis.errors.FailedHealthCheck as e:
                raise HarnessError(f"Hypothesis health check failed in {sub}: {e}") from e
            except hypothesis.errors.Flaky as e:
                # A case failed once and passed on re-execution.  The harness is a pure function of the case, so the
                # code under test kept hidden state between executions - and in one of them the property was seen
                # to fail.  It is reported as a violation whose replay runs the case repeatedly in one process.
                if state["last"] is not None:
                    case, f = state["last"]
                    f2 = Fail("verdict_varies_between_executions|" + f.sig, f.detail)
                    self._add_violation(sub, {"kind": "_repeat", "times": 8, "case": jsonable(case)}, f2)
                    self.muted.add(f.sig)
                    continue
                raise HarnessError(f"flaky case in {sub}: {e}") from e
            break

    def result(self):
        return {
            "evaluations": self.evaluations,
            "labels": self.labels,
            "samples": self.samples,
            "violations": self.violations,
            "excluded": self.excluded,
            "skipped": self.skipped,
            "budget_hit": self.budget_hit,
            "notes": self.notes,
            "sub_counts": self.sub_counts,
            "wall_s": round(time.time() - self.t_start, 2),
        }
