"""C12 - writing a model to SBML and reading it back preserves its behaviour."""
import os
import re

from hypothesis import strategies as st

from vf import gen, modelcmp, ref, spec as specmod
from vf.core import R


def check(case):
    from bioscrape.types import Model
    res = R()
    sp, stochastic = case["spec"], case["stochastic"]
    flavour = "stochastic_export" if stochastic else "deterministic_export"
    with specmod.quiet():
        M = specmod.to_model(sp, share_dicts=bool(case.get("share_dicts")))
    p1 = os.path.abspath(f"c12a_{os.getpid()}.xml")
    p2 = os.path.abspath(f"c12b_{os.getpid()}.xml")
    types = sorted({rx["type"] for rx in sp["reactions"]})
    feats = []
    for rx in sp["reactions"]:
        if rx["type"] == "general":
            feats.extend(sorted(ref.tree_ops(rx["tree"]) & {"log", "exp", "abs", "min", "max", "step", "t", "vol", "pow"}))
    try:
        with specmod.quiet():
            M.write_sbml_model(p1, stochastic_model=stochastic)
            M.write_sbml_model(p2, stochastic_model=stochastic)
        t1, t2 = open(p1).read(), open(p2).read()
        mask = lambda s: re.sub(r"bioscrape_generated_model_\d+", "bioscrape_generated_model_X", s)
        if mask(t1) != mask(t2):
            res.fail(("write_twice_differs", flavour), detail="two exports of the same model differ beyond the model id")
            return res
        try:
            with specmod.quiet():
                M2 = Model(sbml_filename=p1)
        except Exception as e:
            res.fail(("reimport_fails", flavour, type(e).__name__, "+".join(sorted(set(feats))) or "-"),
                     message=str(e)[:300], types=types)
            return res
    finally:
        for p in (p1, p2):
            if os.path.exists(p):
                os.remove(p)
    sched = []
    for rl in sp["rules"]:
        try:
            sched.append(float(rl["freq"]))
        except ValueError:
            pass
    with specmod.quiet():
        diffs = modelcmp.compare(M, M2, case["states"], times=(0.0, 1.5), scheduled_times=tuple(sched))
    for sig, detail in diffs:
        res.fail(("roundtrip",) + tuple(sig) + (flavour,), **detail)
    if not res.fails and case.get("rewrite"):
        # the same model object written again after value-only changes (set_parameter / set_species): the second file
        # must describe the model as it is now
        res.label("written_again_after_value_changes")
        pnames = sorted(M.get_parameter_dictionary())
        with specmod.quiet():
            for nm in pnames[:3]:
                M.set_parameter(nm, float(M.get_parameter_dictionary()[nm]) * 1.5 + 0.125)
            M.set_species({sp["species"][0]: float(M.get_species_dictionary()[sp["species"][0]]) + 3.0})
            p3 = os.path.abspath(f"c12c_{os.getpid()}.xml")
            try:
                M.write_sbml_model(p3, stochastic_model=stochastic)
                M3 = Model(sbml_filename=p3)
            finally:
                if os.path.exists(p3):
                    os.remove(p3)
            diffs = modelcmp.compare(M, M3, case["states"][:2], times=(0.0,), scheduled_times=tuple(sched))
        for sig, detail in diffs:
            res.fail(("roundtrip_after_value_change",) + tuple(sig) + (flavour,), **detail)
    for t in types:
        res.label("type:" + t)
    for rx in sp["reactions"]:
        if rx.get("delay"):
            res.label("delay:" + rx["delay"]["type"])
    for rl in sp["rules"]:
        res.label("rule:" + rl["type"] + ":" + ("time" if rl["freq"] not in ("repeated", "start", "dt") else rl["freq"]))
    res.label(flavour)
    res.nontrivial = any(rx["type"] != "massaction" or len(rx["r"]) >= 3 for rx in sp["reactions"]) and \
        (any(rx.get("delay") for rx in sp["reactions"]) or bool(sp["rules"]))
    return res


@st.composite
def cases(draw):
    sp = draw(gen.structural_models(time=True, step=True, delay_prob=3, max_rx=4, empty_delay=True))
    from vf.props.c14 import tiny_rate_constants, shared_rate_constant
    tiny_rate_constants(draw, sp)
    species = sp["species"]
    # volume in a general rate now and then
    for rx in sp["reactions"]:
        if rx["type"] == "general" and draw(st.integers(0, 3)) == 0:
            rx["tree"] = ["div", rx["tree"], ["vol"]]
            rx["pd"]["rate"] = ref.show(rx["tree"])
    # a general rate written with minimal parentheses and a unary minus in front of a power: k * exp(-A^2)
    for rx in sp["reactions"]:
        if rx["type"] == "general" and draw(st.integers(0, 3)) == 0:
            a_ = gen.sym(draw(st.sampled_from(species)))
            rx["tree"] = ["mul", rx["tree"], ["exp", ["neg", ["pow", a_, gen.num(draw(st.sampled_from([2.0, 3.0])))]]]]
            rx["pd"]["rate"] = ref.show_min(rx["tree"])
    # rules on extra target species
    nrules = draw(st.integers(0, 3))
    for i in range(nrules):
        freq = draw(st.sampled_from(["repeated", "repeated", "start", "dt", "2.5", "0.75"]))
        on_parameter = draw(st.integers(0, 3)) == 0
        if on_parameter:
            # the rule assigns a parameter; its declared value is what the model holds until the rule first fires
            tgt = f"Pr{i}"
            sp["params"][tgt] = draw(st.sampled_from([0.5, 2.0, 7.25, 0.0]))
        else:
            tgt = f"Tg{i}"
            sp["species"].append(tgt)
            sp["x0"][tgt] = float(draw(st.integers(0, 5)))
        if draw(st.booleans()) and not on_parameter:
            srcs = draw(st.lists(st.sampled_from(species), min_size=1, max_size=3))
            tree = ["add"] + [gen.sym(s) for s in srcs] if len(srcs) > 1 else gen.sym(srcs[0])
            sp["rules"].append({"type": "additive", "eq": f"{tgt} = " + " + ".join(srcs), "freq": freq, "tree": tree, "dest": tgt})
        else:
            b = gen.Builder(draw, species)
            b.params = sp["params"]
            tree = gen.positive_tree(b, species, time=True)
            text = ref.show(tree)
            if draw(st.integers(0, 3)) == 0:
                # written the way people write it - with the minimal parentheses: a unary minus in front of a power,
                # "exp(-A^2)", "-A^2 + f", "-(A - B)^2" (the power binds tighter than the sign)
                a_, b_ = gen.sym(draw(st.sampled_from(species))), gen.sym(draw(st.sampled_from(species)))
                e_ = gen.num(draw(st.sampled_from([2.0, 3.0])))
                tree = draw(st.sampled_from([["mul", tree, ["exp", ["neg", ["pow", a_, e_]]]],
                                             ["add", ["neg", ["pow", a_, e_]], tree],
                                             ["add", ["neg", ["pow", ["sub", a_, b_], e_]], tree]]))
                text = ref.show_min(tree)
            sp["rules"].append({"type": "assignment", "eq": f"{tgt} = {text}", "freq": freq, "tree": tree, "dest": tgt})
    states = [{s: draw(st.one_of(st.integers(0, 9).map(float), gen.amount(9))) for s in sp["species"]}
              for _ in range(draw(st.integers(3, 6)))]
    share = shared_rate_constant(draw, sp)
    return {"kind": "roundtrip", "spec": sp, "stochastic": draw(st.booleans()), "states": states,
            "rewrite": draw(st.integers(0, 2)) == 0, "share_dicts": share}


def search(ctx):
    scale = ctx.job.get("scale", 1)
    ctx.run_hypothesis("roundtrip", cases(), check, ctx.share((40000 if ctx.thorough else 5000) * scale))
