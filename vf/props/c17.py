"""C17 - copies and pickles of models and results behave like the original.

Three generated families:
  model    plain models over every propensity / expression-node / delay / rule class; optional simulations and
           edits before cloning; clone chains (pickle protocols 2..5, deepcopy, copies of copies); behavioural
           comparison, seeded simulations, independence after edits on either side
  lineage  lineage models over every event / lineage-rule / splitter option; same oracle with seeded single-cell
           and lineage simulations (growth, division, death)
  result   result objects, cell states, queues, schnitzes and lineages from real simulations
"""
import copy
import pickle

import numpy as np
from hypothesis import strategies as st

from vf import gen, lingen, modelcmp, ref, spec as specmod
from vf.core import R

HOWS = ["p2", "p3", "p4", "p5", "deepcopy"]


def clone(obj, how):
    if how == "deepcopy":
        return copy.deepcopy(obj)
    return pickle.loads(pickle.dumps(obj, protocol=int(how[1:])))


def clone_chain(res, obj, chain, what):
    cur = obj
    for how in chain:
        try:
            cur = clone(cur, how)
        except Exception as e:  # a class that cannot be copied at all is the plainest violation of the statement
            res.fail(("clone_fails", what, type(e).__name__), how=how, message=str(e)[:300])
            return None
    return cur


def arrays_equal(a, b):
    a, b = np.asarray(a, dtype=float), np.asarray(b, dtype=float)
    return a.shape == b.shape and np.array_equal(a, b, equal_nan=True)


# ---------------------------------------------------------------------------------------------------
# plain models
SIM_MODES = ["det", "ssa", "safe", "vol", "delay"]


def sim_plain(M, mode, grid, seed):
    from bioscrape.simulator import py_simulate_model
    from bioscrape.random import py_seed_random
    kw = {"det": {}, "ssa": dict(stochastic=True), "safe": dict(stochastic=True, safe=True),
          "vol": dict(stochastic=True, volume=1.5), "delay": dict(stochastic=True, delay=True)}[mode]
    py_seed_random(int(seed))
    with specmod.quiet():
        df = py_simulate_model(np.array(grid, dtype=float), Model=M, **kw)
    return {c: df[c].to_numpy(dtype=float) for c in df.columns}


def same_frames(a, b, exact):
    if set(a) != set(b):
        return {"columns_a": sorted(a), "columns_b": sorted(b)}
    for c in sorted(a):
        x, y = a[c], b[c]
        if x.shape != y.shape:
            return {"column": c, "shape_a": list(x.shape), "shape_b": list(y.shape)}
        if exact:
            ok = np.array_equal(x, y, equal_nan=True)
        else:
            big = max(1.0, float(np.nanmax(np.abs(y))) if y.size else 1.0)
            ok = bool(np.all((np.abs(x - y) <= 1e-9 * big) | (x == y) | (np.isnan(x) & np.isnan(y))))
        if not ok:
            k = int(np.argmax(~((x == y) | (np.isnan(x) & np.isnan(y)))))
            return {"column": c, "row": k, "a": float(x[k]), "b": float(y[k])}
    return None


def snapshot(M, grid, seed, modes):
    snap = {"species": {k: float(v) for k, v in M.get_species_dictionary().items()},
            "params": {k: float(v) for k, v in M.get_parameter_dictionary().items()},
            "S": np.array(M.py_get_update_array(), dtype=float).copy(),
            "Sd": np.array(M.py_get_delay_update_array(), dtype=float).copy(),
            "nrules": len(M.get_rules()), "sims": {}}
    for m in modes:
        snap["sims"][m] = sim_plain(M, m, grid, seed)
    return snap


def snapshot_diff(a, b):
    for k in ("species", "params"):
        if a[k].keys() != b[k].keys():
            return {"what": k + "_names", "a": sorted(a[k]), "b": sorted(b[k])}
        for n in a[k]:
            if not (a[k][n] == b[k][n] or (a[k][n] != a[k][n] and b[k][n] != b[k][n])):
                return {"what": k, "name": n, "before": a[k][n], "after": b[k][n]}
    for k in ("S", "Sd"):
        if not arrays_equal(a[k], b[k]):
            return {"what": k, "before_shape": list(a[k].shape), "after_shape": list(b[k].shape)}
    if a["nrules"] != b["nrules"]:
        return {"what": "rule_count", "before": a["nrules"], "after": b["nrules"]}
    for m in a["sims"]:
        d = same_frames(a["sims"][m], b["sims"][m], exact=True)
        if d is not None:
            return {"what": "seeded_output", "mode": m, **d}
    return None


def apply_edit(M, edit):
    kind = edit[0]
    with specmod.quiet():
        if kind == "set_param":
            M.set_parameter(edit[1], edit[2])
        elif kind == "set_dummy":
            names = sorted(p for p in M.get_parameter_dictionary() if p.startswith("DummyVar_"))
            if names:
                M.set_parameter(names[edit[1] % len(names)], edit[2])
            else:
                M.create_parameter("zz_new", edit[2])
        elif kind == "set_species":
            M.set_species({edit[1]: edit[2]})
        elif kind == "add_reaction":
            M.create_reaction([edit[1]], [edit[2]] if edit[2] else [], "massaction", {"k": edit[3]})
        elif kind == "add_rule":
            # the target is a new species that nothing reads: a rule assigning an existing species could feed back into
            # the reactions (X = W + 1 next to W = Z + X grows at every event)
            M._add_species("Qnew")
            M.set_species({"Qnew": 0.0})
            M.create_rule("assignment", {"equation": f"Qnew = {edit[2]} + 1"})
        elif kind == "add_param":
            M.create_parameter("zz_new", edit[1])
        else:
            raise ValueError(kind)


def model_members(sp):
    out = set()
    for rx in sp["reactions"]:
        out.add("prop:" + rx["type"] + (":order%d" % min(len(rx["r"]), 3) if rx["type"] == "massaction" else ""))
        if rx["type"] == "general":
            out |= {"term:" + o for o in ref.tree_ops(rx["tree"])}
        if rx.get("delay"):
            out.add("delay:" + rx["delay"]["type"])
    for rl in sp.get("rules", []):
        f = rl.get("freq", "repeated")
        out.add("rule:" + rl["type"] + ":" + (f if f in ("repeated", "start", "dt") else "time"))
        if "tree" in rl:
            out |= {"term:" + o for o in ref.tree_ops(rl["tree"])}
    return out


def check_model(case):
    res = R()
    sp = case["spec"]
    with specmod.quiet():
        M = specmod.to_model(sp, initialize=bool(case["init"]))
    simulable = case["simulable"]
    grid, seed = case["grid"], case["seed"]
    pre_used = False
    for op in case["pre"]:
        if op[0] == "sim":
            if simulable:
                sim_plain(M, op[1], grid, op[2])
                pre_used = True
        elif op[0] == "init":
            with specmod.quiet():
                M.py_initialize()
        else:
            apply_edit(M, op)
            pre_used = True
    C = clone_chain(res, M, case["chain"], "Model")
    if C is None:
        return res
    for how in case["chain"]:
        res.label("how:" + how)
    with specmod.quiet():
        if M.py_get_update_array() is None or not case["init"]:
            M.py_initialize()
        C.py_initialize() if C.py_get_update_array() is None else None
    sched = []
    for rl in sp.get("rules", []):
        try:
            sched.append(float(rl["freq"]))
        except (ValueError, KeyError):
            pass
    with specmod.quiet():
        diffs = modelcmp.compare(M, C, case["states"], times=(0.0, 1.5), scheduled_times=tuple(sched))
    for sig, detail in diffs:
        res.fail(("model_clone_differs",) + tuple(sig), chain=case["chain"], **detail)
    if res.fails:
        return res
    modes = case["modes"] if simulable else []
    for m in modes:
        a = sim_plain(M, m, grid, seed)
        b = sim_plain(C, m, grid, seed)
        d = same_frames(a, b, exact=(m != "det"))
        if d is not None:
            res.fail(("model_clone_simulates_differently", m), chain=case["chain"], difference=d)
            return res
    # ---- independence --------------------------------------------------------------------------------------
    edit, side = case["edit"], case["edit_side"]
    edited, other = (C, M) if side == "clone" else (M, C)
    with specmod.quiet():
        other.py_initialize()
    before = snapshot(other, grid, seed, modes[:2])
    apply_edit(edited, edit)
    with specmod.quiet():
        try:
            edited.py_initialize()
            if simulable and modes:
                sim_plain(edited, modes[0], grid, seed)
        except ValueError:
            pass
    after = snapshot(other, grid, seed, modes[:2])
    d = snapshot_diff(before, after)
    if d is not None:
        res.fail(("clone_not_independent", edit[0], "edit_" + side), chain=case["chain"], **d)
    members = model_members(sp)
    for mbr in members:
        res.label(mbr)
    res.label("family:" + ("simulable" if simulable else "structural"))
    if pre_used:
        res.label("clone_after_edit_or_simulation")
    if not case["init"]:
        res.label("clone_of_uninitialised_model")
    if len(case["chain"]) >= 2:
        res.label("copy_of_copy")
    res.nontrivial = len(members) >= 3 or len(case["chain"]) >= 2 or pre_used
    return res


# ---------------------------------------------------------------------------------------------------
# lineage models
def lineage_observe(M, ls, seed):
    """Everything that can be observed of a lineage model's behaviour from Python."""
    from bioscrape.lineage import py_SimulateSingleCell
    from bioscrape.random import py_seed_random
    grid = ls["grid"]
    obs = {"counts": [list(M.py_get_event_counts()), list(M.py_get_rule_counts())]}
    py_seed_random(int(seed))
    with specmod.quiet():
        df = py_SimulateSingleCell(np.array(grid, dtype=float), Model=M)
    obs["single"] = {c: df[c].to_numpy(dtype=float) for c in df.columns}
    recs, _ = lingen.simulate_lineage(M, grid, int(seed) + 1, ls["cells"])
    obs["lineage"] = recs
    # event propensities at sampled states
    props = M.py_get_lineage_propensities()
    pv = np.array(M.get_parameter_values(), dtype=float)
    vals = []
    n = len(M.get_species2index())
    for k, p in enumerate(props):
        for j in range(3):
            x = np.array([(3 * i + 2 * j + 1) % 11 for i in range(n)], dtype=float)
            vals.append(float(p.py_get_volume_propensity(x, pv, 1.0 + 0.5 * j, 0.5 * j)))
            vals.append(float(p.py_verif_stochastic_volume_propensity(x, pv, 1.0 + 0.5 * j, 0.5 * j)))
    obs["event_propensities"] = vals
    # splitters: seeded partition of a fixed mother
    from bioscrape.lineage import LineageVolumeCellState
    rule_sp, event_sp = M.py_get_volume_splitters()
    parts = []
    for vs in list(rule_sp or []) + list(event_sp or []):
        mother = LineageVolumeCellState(v0=1.0, t0=0.0, state=np.array([(7 * i + 5) % 23 for i in range(n)], dtype=float),
                                        volume=2.5, time=1.0)
        py_seed_random(int(seed) + 2)
        d, e = vs.py_partition(mother)
        parts.append([list(map(float, d.py_get_state())), float(d.py_get_volume()),
                      list(map(float, e.py_get_state())), float(e.py_get_volume())])
    obs["partitions"] = parts
    return obs


def lineage_obs_diff(a, b):
    if a["counts"] != b["counts"]:
        return ("event_or_rule_counts",), {"a": a["counts"], "b": b["counts"]}
    if len(a["event_propensities"]) != len(b["event_propensities"]) or \
            not np.allclose(a["event_propensities"], b["event_propensities"], rtol=1e-12, atol=0, equal_nan=True):
        return ("event_propensities",), {"a": a["event_propensities"][:6], "b": b["event_propensities"][:6]}
    if a["partitions"] != b["partitions"]:
        return ("splitter_partition",), {"a": a["partitions"][:2], "b": b["partitions"][:2]}
    d = same_frames(a["single"], b["single"], exact=True)
    if d is not None:
        return ("single_cell_simulation",), d
    la, lb = a["lineage"], b["lineage"]
    if len(la) != len(lb):
        return ("lineage_size",), {"a": len(la), "b": len(lb)}
    for i, (x, y) in enumerate(zip(la, lb)):
        if x["parent"] != y["parent"] or x["daughters"] != y["daughters"]:
            return ("lineage_links",), {"schnitz": i, "a": [x["parent"], x["daughters"]], "b": [y["parent"], y["daughters"]]}
        for k in ("time", "data", "volume"):
            if not arrays_equal(x[k], y[k]):
                return ("lineage_" + k,), {"schnitz": i}
    return None


def lineage_members(ls):
    out = set()
    for g in ls["growth"]:
        out.add("growth:" + g["kind"] + ":" + g["type"] + (":noise" if "noise" in g["params"] else ""))
    for d in ls["division"]:
        out.add("division:" + d["kind"] + ":" + d["type"] + (":noise" if "noise" in d["params"] else ""))
        opt = d["splitter"]["options"]
        out.add("splitter:volume:" + opt["volume"])
        out |= {"splitter:species:" + v for k, v in opt.items() if k not in ("volume",)}
    for d in ls["death"]:
        out.add("death:" + d["kind"] + ":" + d["type"])
    for ev in ls["growth"] + ls["division"] + ls["death"]:
        if "prop" in ev:
            out.add("event_propensity:" + ev["prop"][0])
    return out


def check_lineage(case):
    res = R()
    ls = case["lspec"]
    seed = case["seed"]
    with specmod.quiet():
        M = lingen.to_lineage_model(ls, initialize=bool(case["init"]))
    pre_used = False
    if case.get("pre_reinit") and case["init"]:
        # initialised a second time before it is copied (as after any structural edit)
        with specmod.quiet():
            M.py_initialize()
        res.label("initialised_twice_before_cloning")
    if case["pre_sim"] and case["init"]:
        lingen.simulate_lineage(M, ls["grid"], seed + 7, 1)
        pre_used = True
    if case["pre_edit"]:
        with specmod.quiet():
            M.set_species({"A": float(case["pre_edit"])})
        pre_used = True
    C = clone_chain(res, M, case["chain"], "LineageModel")
    if C is None:
        return res
    with specmod.quiet():
        if not case["init"]:
            M.py_initialize()
            C.py_initialize()
        states = [{s: float((3 * i + 2 * j) % 9) for i, s in enumerate(ls["base"]["species"])} for j in range(4)]
        diffs = modelcmp.compare(M, C, states, times=(0.0, 1.5))
    for sig, detail in diffs:
        res.fail(("lineage_model_clone_differs",) + tuple(sig), chain=case["chain"], **detail)
    if res.fails:
        return res
    try:
        a = lineage_observe(M, ls, seed)
    except ValueError as e:
        if "dividing too fast" in str(e):       # the simulator's explicit rejection of this model / grid combination
            res.skip = "cells_divide_faster_than_grid"
            return res
        raise
    b = lineage_observe(C, ls, seed)
    d = lineage_obs_diff(a, b)
    if d is not None:
        res.fail(("lineage_model_clone_differs",) + d[0], chain=case["chain"], **d[1])
        return res
    # independence: edit one side, the other side's observable behaviour is unchanged
    edited, other = (C, M) if case["edit_side"] == "clone" else (M, C)
    before = lineage_observe(other, ls, seed)
    sd_before = dict(other.get_species_dictionary()), dict(other.get_parameter_dictionary())
    with specmod.quiet():
        kind = case["edit"]
        if kind == "species":
            edited.set_species({"A": 77.0, "B": 1.0})
        elif kind == "param":
            names = sorted(edited.get_parameter_dictionary())
            for nm in names:
                edited.set_parameter(nm, float(edited.get_parameter_dictionary()[nm]) * 1.5 + 0.25)
        elif kind == "reaction":
            edited.create_reaction(["A"], [], "massaction", {"k": 3.0})
            edited.py_initialize()
        else:
            edited.create_volume_rule("linear", {"growth_rate": 0.75})
            edited.py_initialize()
        try:
            lingen.simulate_lineage(edited, ls["grid"][:6], seed, 1)
        except ValueError:
            pass
    after = lineage_observe(other, ls, seed)
    sd_after = dict(other.get_species_dictionary()), dict(other.get_parameter_dictionary())
    d = lineage_obs_diff(before, after)
    if d is None and sd_before != sd_after:
        d = (("dictionaries",), {"before": str(sd_before)[:300], "after": str(sd_after)[:300]})
    if d is not None:
        res.fail(("lineage_clone_not_independent", kind, "edit_" + case["edit_side"]) + d[0], **d[1])
    members = lineage_members(ls)
    for m in members:
        res.label(m)
    nsch = len(a["lineage"])
    res.label("lineage_schnitzes:" + ("1" if nsch == 1 else "2-3" if nsch <= 3 else "4+"))
    if len(case["chain"]) >= 2:
        res.label("copy_of_copy")
    if pre_used:
        res.label("clone_after_edit_or_simulation")
    res.nontrivial = len(members) >= 3 or len(case["chain"]) >= 2 or pre_used
    return res


# ---------------------------------------------------------------------------------------------------
# result objects
def _queue_contents(q, nrxn, ncols):
    c = q.py_copy()
    out = []
    buf = np.zeros(nrxn)
    for _ in range(ncols):
        t = float(c.py_get_next_queue_time())
        c.py_get_next_reactions(buf)
        out.append([t] + [float(x) for x in buf])
        c.py_advance_time()
    return out


def _cellstate_view(cs):
    return {"time": float(cs.py_get_time()), "volume": float(cs.py_get_volume()),
            "state": [float(x) for x in np.asarray(cs.py_get_state(), dtype=float)]}


def check_result(case):
    from bioscrape.simulator import (py_simulate_model, ArrayDelayQueue, VolumeCellState, DelayVolumeCellState,
                                     CellState, DelayCellState)
    from bioscrape.types import Schnitz, Lineage, ExperimentalLineage
    from bioscrape.lineage import LineageVolumeCellState, py_SimulateSingleCell
    from bioscrape.random import py_seed_random
    res = R()
    what, how = case["what"], case["chain"]
    grid = np.array(case["grid"], dtype=float)
    res.label("result:" + what)
    for h in how:
        res.label("how:" + h)
    if what in ("ssa", "det", "delay", "volume", "delayvolume", "cellstate", "delaycellstate", "schnitz", "queue"):
        with specmod.quiet():
            M = specmod.to_model(case["spec"])
        kw = {"ssa": dict(stochastic=True), "det": {}, "delay": dict(stochastic=True, delay=True),
              "queue": dict(stochastic=True, delay=True),
              "volume": dict(stochastic=True, volume=1.5), "cellstate": dict(stochastic=True, volume=1.5),
              "schnitz": dict(stochastic=True, volume=1.5),
              "delayvolume": dict(stochastic=True, delay=True, volume=1.5),
              "delaycellstate": dict(stochastic=True, delay=True, volume=1.5)}[what]
        py_seed_random(case["seed"])
        with specmod.quiet():
            r = py_simulate_model(grid, Model=M, return_dataframe=False, **kw)
        nrxn = len(case["spec"]["reactions"])
        if what == "queue":
            q = r.py_get_delay_queue()
            c = clone_chain(res, q, how, "ArrayDelayQueue")
            if c is None:
                return res
            if _queue_contents(q, nrxn, len(grid)) != _queue_contents(c, nrxn, len(grid)):
                res.fail(("result_clone_differs", "ArrayDelayQueue", "pending_reactions"))
            # independence of the restored queue
            before = _queue_contents(q, nrxn, len(grid))
            c.py_add_reaction(float(c.py_get_next_queue_time()), 0, 5.0)
            c.py_advance_time()
            if _queue_contents(q, nrxn, len(grid)) != before:
                res.fail(("result_clone_not_independent", "ArrayDelayQueue"))
            res.nontrivial = any(any(row[1:]) for row in before)
            return res
        if what in ("cellstate", "delaycellstate"):
            cs = r.py_get_final_cell_state()
            c = clone_chain(res, cs, how, type(cs).__name__)
            if c is None:
                return res
            if _cellstate_view(cs) != _cellstate_view(c):
                res.fail(("result_clone_differs", type(cs).__name__), a=_cellstate_view(cs), b=_cellstate_view(c))
            if hasattr(cs, "py_get_delay_queue") and cs.py_get_delay_queue() is not None:
                qc = c.py_get_delay_queue()
                if qc is None or _queue_contents(cs.py_get_delay_queue(), nrxn, len(grid)) != _queue_contents(qc, nrxn, len(grid)):
                    res.fail(("result_clone_differs", type(cs).__name__, "pending_delayed_reactions"))
                res.label("cellstate_with_queue")
            st0 = _cellstate_view(cs)
            c.py_get_state()[0] += 100.0
            if _cellstate_view(cs) != st0:
                res.fail(("result_clone_not_independent", type(cs).__name__))
            res.nontrivial = True
            return res
        if what == "schnitz":
            s = r.py_get_schnitz()
            c = clone_chain(res, s, how, "Schnitz")
            if c is None:
                return res
            for name, f in (("time", lambda z: z.py_get_time()), ("data", lambda z: z.py_get_data()),
                            ("volume", lambda z: z.py_get_volume())):
                if not arrays_equal(f(s), f(c)):
                    res.fail(("result_clone_differs", "Schnitz", name))
            res.nontrivial = True
            return res
        tname = type(r).__name__
        c = clone_chain(res, r, how, tname)
        if c is None:
            return res
        if not arrays_equal(r.py_get_result(), c.py_get_result()):
            res.fail(("result_clone_differs", tname, "result"))
        tp_r, tp_c = r.py_get_timepoints(), c.py_get_timepoints()
        if tp_c is None or not arrays_equal(tp_r, tp_c):
            res.fail(("result_clone_differs", tname, "timepoints"))
        if what in ("volume", "delayvolume"):
            if not arrays_equal(r.py_get_volume(), c.py_get_volume()):
                res.fail(("result_clone_differs", tname, "volume"))
            if int(r.py_cell_divided()) != int(c.py_cell_divided()):
                res.fail(("result_clone_differs", tname, "divided"))
        if what in ("delay", "delayvolume"):
            if _queue_contents(r.py_get_delay_queue(), nrxn, len(grid)) != _queue_contents(c.py_get_delay_queue(), nrxn, len(grid)):
                res.fail(("result_clone_differs", tname, "queue"))
        if not res.fails:
            with specmod.quiet():
                da, db = r.py_get_dataframe(Model=M), c.py_get_dataframe(Model=M)
            if list(da.columns) != list(db.columns) or not arrays_equal(da.to_numpy(dtype=float), db.to_numpy(dtype=float)):
                res.fail(("result_clone_differs", tname, "dataframe"))
        res.nontrivial = bool(np.any(np.diff(np.asarray(r.py_get_result(), dtype=float), axis=0) != 0))
        return res
    if what in ("plain_states",):
        # (times and birth times: any real number - zero and negative values included; a cell born at -4 is at time 0
        # four time units later)
        tm, t0 = case.get("times", [1.0, 0.25])
        objs = [CellState(time=tm, state=np.array(case["vec"], dtype=float)),
                VolumeCellState(time=tm, state=np.array(case["vec"], dtype=float), volume=2.25),
                DelayVolumeCellState(time=tm, state=np.array(case["vec"], dtype=float), volume=1.25),
                LineageVolumeCellState(v0=1.5, t0=t0, state=np.array(case["vec"], dtype=float), volume=2.0, time=tm,
                                       divided=case["flags"][0], dead=case["flags"][1])]
        for o in objs:
            if case.get("times"):
                o.py_set_time(tm)          # the time as a simulator leaves it: written by the setter
            c = clone_chain(res, o, how, type(o).__name__)
            if c is None:
                continue
            va = {"time": float(o.py_get_time()), "state": list(map(float, o.py_get_state()))}
            vb = {"time": float(c.py_get_time()), "state": list(map(float, c.py_get_state()))}
            if hasattr(o, "py_get_volume"):
                va["volume"], vb["volume"] = float(o.py_get_volume()), float(c.py_get_volume())
            if isinstance(o, LineageVolumeCellState):
                va.update(v0=float(o.py_get_initial_volume()), t0=float(o.py_get_initial_time()), st=o.__getstate__()[5:])
                vb.update(v0=float(c.py_get_initial_volume()), t0=float(c.py_get_initial_time()), st=c.__getstate__()[5:])
            if va != vb:
                res.fail(("result_clone_differs", type(o).__name__), a=str(va), b=str(vb))
        res.nontrivial = True
        return res
    # ---- lineages -----------------------------------------------------------------------------------------------
    ls = case["lspec"]
    with specmod.quiet():
        M = lingen.to_lineage_model(ls)
    if what == "singlecell":
        py_seed_random(case["seed"])
        with specmod.quiet():
            r = py_SimulateSingleCell(grid, Model=M, return_dataframes=False)
        c = clone_chain(res, r, how, type(r).__name__)
        if c is None:
            return res
        for name, f in (("result", lambda z: z.py_get_result()), ("timepoints", lambda z: z.py_get_timepoints()),
                        ("volume", lambda z: z.py_get_volume())):
            if not arrays_equal(f(r), f(c)):
                res.fail(("result_clone_differs", type(r).__name__, name))
        for name, f in (("divided", lambda z: z.py_get_divided()), ("dead", lambda z: z.py_get_dead())):
            if f(r) != f(c):
                res.fail(("result_clone_differs", type(r).__name__, name), a=f(r), b=f(c))
        res.nontrivial = True
        return res
    try:
        recs, L = lingen.simulate_lineage(M, ls["grid"], case["seed"], ls["cells"])
    except ValueError as e:
        if "dividing too fast" in str(e):
            res.skip = "cells_divide_faster_than_grid"
            return res
        raise
    if what == "experimental":
        idx = {s: i for i, s in enumerate(ls["base"]["species"])}
        E = ExperimentalLineage(dict(idx))
        for i in range(L.py_size()):
            E.py_add_schnitz(L.py_get_schnitz(i))
        L = E
    if what == "schnitz_with_parent":
        # a cell pickled on its own takes its relatives with it: its mother link must survive
        kids = [i for i, r in enumerate(recs) if r["parent"] is not None]
        if not kids:
            res.skip = "lineage has no daughter"
            return res
        k = kids[case["seed"] % len(kids)]
        s0 = L.py_get_schnitz(k)
        c = clone_chain(res, s0, how, "Schnitz")
        if c is None:
            return res
        p0, pc = s0.py_get_parent(), c.py_get_parent()
        if pc is None:
            res.fail(("result_clone_differs", "Schnitz", "parent_link_lost"), schnitz=k)
            return res
        for name, f in (("time", lambda z: z.py_get_time()), ("data", lambda z: z.py_get_data()), ("volume", lambda z: z.py_get_volume())):
            if not arrays_equal(f(s0), f(c)) or not arrays_equal(f(p0), f(pc)):
                res.fail(("result_clone_differs", "Schnitz", name), schnitz=k)
                return res
        if not any(d is c for d in pc.py_get_daughters()):
            res.fail(("result_clone_differs", "Schnitz", "links_not_mutual"), schnitz=k)
        res.nontrivial = True
        return res
    if what == "one_directional_links":
        # hand-made lineage (as from image analysis): daughters know their mother, the mother's daughter slots stay empty
        E = ExperimentalLineage({s: i for i, s in enumerate(ls["base"]["species"])})
        made = []
        for r in recs[:7]:
            made.append(Schnitz(r["time"].copy(), r["data"].copy(), r["volume"].copy()))
        for i, r in enumerate(recs[:7]):
            if r["parent"] is not None and r["parent"] < len(made):
                made[i].py_set_parent(made[r["parent"]])
        for m in made:
            E.py_add_schnitz(m)
        Ec = clone_chain(res, E, how, "ExperimentalLineage")
        if Ec is None:
            return res
        ra, rb = lingen.lineage_records(E), lingen.lineage_records(Ec)
        if len(ra) != len(rb):
            res.fail(("result_clone_differs", "ExperimentalLineage", "size"))
            return res
        for i, (x, y) in enumerate(zip(ra, rb)):
            if x["parent"] != y["parent"] or x["daughters"] != y["daughters"]:
                res.fail(("result_clone_differs", "ExperimentalLineage", "one_directional_links"), schnitz=i,
                         a=[x["parent"], x["daughters"]], b=[y["parent"], y["daughters"]])
                return res
            for kk in ("time", "data", "volume"):
                if not arrays_equal(x[kk], y[kk]):
                    res.fail(("result_clone_differs", "ExperimentalLineage", kk), schnitz=i)
                    return res
        res.nontrivial = any(r["parent"] is not None for r in ra)
        return res
    if what == "lineage_via_schnitz":
        root = L.py_get_schnitz(0)
        c_root = clone_chain(res, root, how, "Schnitz")
        if c_root is None:
            return res
        Lc = c_root.get_sub_lineage()
        L = root.get_sub_lineage()
        recs = lingen.lineage_records(L)
    else:
        Lc = clone_chain(res, L, how, type(L).__name__)
        if Lc is None:
            return res
    if type(Lc) is not type(L):
        res.fail(("result_clone_differs", type(L).__name__, "type"), got=type(Lc).__name__)
        return res
    rc = lingen.lineage_records(Lc)
    if len(rc) != len(recs):
        res.fail(("result_clone_differs", type(L).__name__, "size"), a=len(recs), b=len(rc))
        return res
    for i, (x, y) in enumerate(zip(recs, rc)):
        for k in ("time", "data", "volume"):
            if not arrays_equal(x[k], y[k]):
                res.fail(("result_clone_differs", type(L).__name__, k), schnitz=i)
                return res
        if x["parent"] != y["parent"] or x["daughters"] != y["daughters"]:
            # index -2 = the linked object is not one of the restored lineage's own schnitzes
            res.fail(("result_clone_differs", type(L).__name__, "links"), schnitz=i,
                     a=[x["parent"], x["daughters"]], b=[y["parent"], y["daughters"]])
            return res
    # links are identities inside the restored object, and mutual
    sch = [Lc.py_get_schnitz(i) for i in range(Lc.py_size())]
    orig = {id(L.py_get_schnitz(i)) for i in range(L.py_size())}
    for i, s in enumerate(sch):
        if id(s) in orig:
            res.fail(("result_clone_shares_objects", type(L).__name__), schnitz=i)
            break
        p = s.py_get_parent()
        if p is not None and not any(d is s for d in p.py_get_daughters()):
            res.fail(("result_clone_differs", type(L).__name__, "links_not_mutual"), schnitz=i)
            break
        for d in s.py_get_daughters():
            if d is not None and d.py_get_parent() is not s:
                res.fail(("result_clone_differs", type(L).__name__, "links_not_mutual"), schnitz=i)
                break
    if what == "experimental" and not res.fails:
        for s_, i_ in idx.items():
            if Lc.py_get_species_index(s_) != i_:
                res.fail(("result_clone_differs", "ExperimentalLineage", "species_indices"))
                break
    res.label("lineage_schnitzes:" + ("1" if len(recs) == 1 else "2-3" if len(recs) <= 3 else "4+"))
    res.nontrivial = len(recs) >= 3
    return res


def check(case):
    kind = case["kind"]
    if kind == "model":
        return check_model(case)
    if kind == "lineage":
        return check_lineage(case)
    return check_result(case)


# ---------------------------------------------------------------------------------------------------
# generators
def chains():
    return st.one_of(st.lists(st.sampled_from(HOWS), min_size=1, max_size=1),
                     st.lists(st.sampled_from(HOWS), min_size=1, max_size=1),
                     st.lists(st.sampled_from(HOWS), min_size=2, max_size=3))


def _extras(draw, b, species):
    """Non-negative factors that together cover every expression-node class."""
    s1 = gen.sym(draw(st.sampled_from(species)))
    s2 = gen.sym(draw(st.sampled_from(species)))
    K = gen.sym(b.new_param(draw(gen.logfl(0.5, 6))))
    c = gen.num(draw(st.sampled_from([0.5, 1.5, 2.5])))
    pool = {
        "pow": ["div", ["pow", s1, gen.num(2)], ["add", ["pow", K, gen.num(2)], ["pow", s1, gen.num(2)]]],
        "exp": ["exp", ["neg", ["div", s1, K]]],
        "log": ["log", ["add", gen.num(1), s1]],
        "abs": ["abs", ["sub", s1, c]],
        "step": ["step", ["sub", s1, c]],
        "min": ["min", s1, K],
        "max": ["div", ["max", s1, s2], ["add", gen.num(1), s1, s2]],
        "t": ["div", ["t"], ["add", gen.num(1), ["t"]]],
        "vol": ["div", ["vol"], ["add", gen.num(1), ["vol"]]],
    }
    keys = draw(st.lists(st.sampled_from(sorted(pool)), min_size=0, max_size=3, unique=True))
    return [["add", gen.num(1), pool[k]] for k in keys]


@st.composite
def simulable_models(draw):
    """Bounded networks (no reaction makes molecules out of nothing) over every member class."""
    species = draw(gen.species_names(1, 3))
    targets = [t for t in ["W", "U"] if t not in species][:draw(st.sampled_from([0, 1, 1, 2]))]
    b = gen.Builder(draw, species + targets)
    for _ in range(draw(st.integers(1, 4))):
        rx = gen.finite_reaction(b, species, safe=False)
        distinct = len(set(rx["r"])) == len(rx["r"])     # a rate proportional to each reactant vanishes before a count
        if distinct and (rx["type"] == "general" or                  # can go negative only when multiplicities are 1
                         (rx["type"] == "massaction" and rx["r"] and draw(st.integers(0, 2)) == 0)):
            # general rate that vanishes with its reactants, times factors over every node class
            k = gen.sym(b.new_param(draw(gen.logfl(0.05, 3))))
            tree = ["mul", k] + [gen.sym(s) for s in sorted(set(rx["r"]))] + _extras(draw, b, species)
            den = ["add", gen.num(1)] + [gen.sym(s) for s in sorted(set(rx["r"]))]
            tree = ["div", tree, den]
            rx = gen.general(rx["r"], rx["p"], tree)
        if rx["p"] and draw(st.integers(0, 2)) == 0:
            # "none": a delayed part without a delay distribution (delivered at once) is still delayed stoichiometry
            typ = draw(st.sampled_from(["fixed", "gaussian", "gamma", "none"]))
            if typ == "fixed":
                pd = {"delay": b.value_entry(gen.logfl(0.05, 3))}
            elif typ == "gaussian":
                pd = {"mean": b.value_entry(gen.logfl(0.05, 3)), "std": b.value_entry(gen.logfl(0.02, 1))}
            elif typ == "gamma":
                pd = {"k": b.value_entry(st.sampled_from([1.0, 2.0, 3.0])), "theta": b.value_entry(gen.logfl(0.05, 1.5))}
            else:
                pd = {}
            rx["delay"] = {"type": typ, "r": [], "p": list(rx["p"]), "pd": pd}
            rx["p"] = []
        b.reactions.append(rx)
    if draw(st.integers(0, 3)) == 0:       # a model whose only delayed parts have no delay distribution
        for rx in b.reactions:
            if rx.get("delay") and rx["delay"]["type"] != "none":
                rx["delay"] = {"type": "none", "r": [], "p": list(rx["delay"]["p"]), "pd": {}}
    dt = draw(st.sampled_from([0.125, 0.25, 0.5]))
    grid = [i * dt for i in range(draw(st.integers(4, 12)))]
    from vf.props import c08
    for tgt in targets:
        b.rules.append(c08._rule(draw, b, tgt, species, grid[1:-1]))
    x0 = {s: float(draw(st.integers(0, 10))) for s in species + targets}
    return b.spec(x0), grid


@st.composite
def model_cases(draw):
    simulable = draw(st.integers(0, 3)) > 0
    if simulable:
        sp, grid = draw(simulable_models())
    else:
        from vf.props import c12
        sp = draw(c12.cases())["spec"]
        # a rule that assigns a parameter (simulations are not compared in this family)
        if sp["params"] and draw(st.booleans()):
            p = sorted(sp["params"])[0]
            s1 = sp["species"][0]
            tree = ["add", gen.sym(s1), gen.num(0.5)]
            sp["rules"].append({"type": "assignment", "eq": f"{p} = {ref.show(tree)}", "freq": "repeated", "tree": tree, "dest": p})
        grid = [0.0, 0.5, 1.0]
    species = sp["species"]
    pnames = sorted(sp["params"])
    states = [{s: draw(st.one_of(st.integers(0, 9).map(float), gen.amount(9))) for s in species}
              for _ in range(draw(st.integers(3, 5)))]

    def edit():
        # edited values stay in [1, 9]: valid for every role a parameter can play (a gamma-delay shape below 1 is outside
        # the domain of the delay sampler)
        k = draw(st.sampled_from(["set_param", "set_dummy", "set_species", "add_reaction", "add_rule", "add_param"]))
        if k == "set_param" and pnames:
            return ["set_param", draw(st.sampled_from(pnames)), draw(gen.logfl(1.0, 9))]
        if k in ("set_dummy", "set_param"):
            return ["set_dummy", draw(st.integers(0, 5)), draw(gen.logfl(1.0, 9))]
        if k == "set_species":
            return ["set_species", draw(st.sampled_from(species)), float(draw(st.integers(11, 30)))]
        if k == "add_reaction":
            # the new reaction consumes a species that no rule assigns (a rule-driven, possibly fractional or negative
            # count under a consuming mass-action reaction is not a valid stochastic model)
            free = [s_ for s_ in species if s_ not in {r_["dest"] for r_ in sp.get("rules", [])}] or species
            return ["add_reaction", draw(st.sampled_from(free)), draw(st.sampled_from(free + [""])), draw(gen.logfl(0.1, 3))]
        if k == "add_rule" and len(species) >= 2:
            tgt = draw(st.sampled_from(species))     # target != source: 'X = X + 1' re-applied at every event explodes
            return ["add_rule", tgt, draw(st.sampled_from([s for s in species if s != tgt]))]
        return ["add_param", draw(gen.logfl(1.0, 9))]

    pre = []
    for _ in range(draw(st.sampled_from([0, 0, 1, 2, 3]))):
        k = draw(st.sampled_from(["sim", "sim", "init", "edit"]))
        if k == "sim":
            pre.append(["sim", draw(st.sampled_from(SIM_MODES)), draw(st.integers(1, 2 ** 40))])
        elif k == "init":
            pre.append(["init"])
        else:
            e = edit()
            if e[0] in ("set_param", "set_dummy", "set_species"):
                pre.append(e)
    modes = draw(st.lists(st.sampled_from(SIM_MODES), min_size=2, max_size=3, unique=True))
    return {"kind": "model", "spec": sp, "simulable": simulable, "init": draw(st.sampled_from([True, True, False])),
            "pre": pre, "chain": draw(chains()), "edit": edit(), "edit_side": draw(st.sampled_from(["clone", "orig"])),
            "states": states, "grid": grid, "seed": draw(st.integers(1, 2 ** 40)), "modes": modes}


@st.composite
def lineage_cases(draw):
    ls = draw(lingen.lineage_specs(max_pts=32))
    return {"kind": "lineage", "lspec": ls, "init": draw(st.sampled_from([True, True, False])),
            "pre_sim": draw(st.booleans()), "pre_edit": draw(st.sampled_from([0, 0, 13, 21])), "chain": draw(chains()),
            "pre_reinit": draw(st.integers(0, 2)) == 0,
            "edit": draw(st.sampled_from(["species", "param", "reaction", "volume_rule"])),
            "edit_side": draw(st.sampled_from(["clone", "orig"])), "seed": draw(st.integers(1, 2 ** 40))}


@st.composite
def result_cases(draw):
    what = draw(st.sampled_from(["ssa", "det", "delay", "volume", "delayvolume", "cellstate", "delaycellstate", "schnitz",
                                 "queue", "plain_states", "singlecell", "lineage", "lineage", "experimental",
                                 "lineage_via_schnitz", "schnitz_with_parent", "one_directional_links"]))
    case = {"kind": "result", "what": what, "chain": draw(chains()), "seed": draw(st.integers(1, 2 ** 40))}
    if what in ("singlecell", "lineage", "experimental", "lineage_via_schnitz", "schnitz_with_parent",
                "one_directional_links"):
        ls = draw(lingen.lineage_specs(max_pts=40))
        case.update(lspec=ls, grid=ls["grid"])
    elif what == "plain_states":
        case.update(vec=[float(draw(st.integers(0, 50))) for _ in range(draw(st.integers(1, 4)))],
                    flags=[draw(st.integers(-1, 2)), draw(st.integers(-1, 2))], grid=[0.0, 1.0],
                    times=[draw(st.sampled_from([1.0, 1.5, 0.0, 0.0, -2.5])), draw(st.sampled_from([0.25, 0.0, -4.0, 3.0]))])
    else:
        sp, grid = draw(simulable_models())
        case.update(spec=sp, grid=grid)
    return case


def search(ctx):
    scale = ctx.job.get("scale", 1)
    t = ctx.thorough
    ctx.run_hypothesis("model", model_cases(), check, ctx.share((30000 if t else 1600) * scale))
    ctx.run_hypothesis("lineage", lineage_cases(), check, ctx.share((12000 if t else 700) * scale))
    ctx.run_hypothesis("result", result_cases(), check, ctx.share((30000 if t else 1500) * scale))
