"""C08 - results depend only on the model's current definition and the seed.

A case is an operation list (a call history, shrunk as one value).  The list is executed on a real Model while an
abstract definition (species, set values, known parameters, reactions, rules) is kept beside it.  At every seeded
simulation, and in every mode at the end, the outcome must equal the outcome of a model built *at once* by the
constructor from the abstract definition and simulated from the same seed; after every simulation the model's
species and parameter dictionaries must still be what the history set them to."""
import math
import time

import numpy as np
from hypothesis import strategies as st

from vf import gen, ref, spec as specmod
from vf.core import R

MODES = ["det", "ssa", "safe", "vol", "delay", "delayvol", "ssa_direct", "det_direct"]
IFACE_MODES = ["det", "ssa", "vol", "delay"]
STOCH = {"ssa", "safe", "vol", "delay", "delayvol", "ssa_direct"}


# ---------------------------------------------------------------------------------------------------
# abstract definition
class Def:
    def __init__(self):
        self.species = []          # declaration order
        self.x0 = {}               # values that were set
        self.known = []            # named parameters known to the model (declaration order)
        self.params = {}           # values that were set
        self.reactions = []
        self.rules = []
        self.version = 0           # bumped by every structural edit

    def add_species(self, s):
        if s not in self.species:
            self.species.append(s)

    def know(self, p):
        if p not in self.known:
            self.known.append(p)

    def rx_symbols(self, rx):
        """(species the reaction makes the model declare, named parameters it makes known)."""
        sp = list(rx["r"]) + list(rx["p"])
        d = rx.get("delay")
        if d:
            sp += list(d.get("r", [])) + list(d.get("p", []))
        if rx["type"] == "general":
            pn = [s for s in sorted(ref.tree_symbols(rx["tree"])) if s not in self.species and s not in sp]
        else:
            pn = [v for k, v in rx["pd"].items() if isinstance(v, str) and k not in ("s1", "d", "species")]
        if d:
            pn += [v for v in d["pd"].values() if isinstance(v, str)]
        return sp, pn

    def complete(self):
        return all(p in self.params for p in self.known)

    def spec(self, order=None):
        species = list(self.species) if order is None else [self.species[i] for i in order]
        return {"species": species, "x0": dict(self.x0), "params": dict(self.params),
                "reactions": list(self.reactions), "rules": list(self.rules)}

# every value from 1 to 2**64 - 1 is a seed (0 alone means "seed from the clock")
BOUNDARY_SEEDS = [2 ** 32, 3 * 2 ** 32, 2 ** 40, 2 ** 48, 2 ** 53, 2 ** 63, 2 ** 64 - 2 ** 32, 2 ** 64 - 1, 2 ** 31, 2 ** 16]


def fresh_model(D, order=None):
    """The definition built at once with the constructor."""
    from bioscrape.types import Model
    sp = D.spec(order)
    params = [(k, sp["params"][k]) for k in D.known if k in sp["params"]]
    kwargs = dict(species=list(sp["species"]), reactions=[specmod.reaction_tuple(rx) for rx in sp["reactions"]],
                  parameters=params, rules=[specmod.rule_tuple(r) for r in sp["rules"]],
                  initial_condition_dict=dict(sp["x0"]))
    return Model(**kwargs)


# ---------------------------------------------------------------------------------------------------
SIMS = {}       # simulator objects shared by the direct runs of one case (cleared at the start of every case)


def run_sim(mode, grid, seed, M=None, I=None, vol=2.0):
    """Outcome of one simulation: ("ok", {column: array}) or ("raise", type name, message)."""
    from bioscrape.simulator import (py_simulate_model, ModelCSimInterface, SSASimulator, DeterministicSimulator)
    from bioscrape.random import py_seed_random
    tp = np.array(grid, dtype=float)
    if seed is not None:
        py_seed_random(int(seed))
    try:
        with specmod.quiet():
            if mode in ("ssa_direct", "det_direct") and I is None:
                itf = ModelCSimInterface(M)
                itf.py_set_dt(tp[1] - tp[0])
                # one simulator object serves every direct run of a case - the model at each stage of its history, the
                # models built at once, the permuted builds: a simulator holds no state of the systems it ran before
                if mode == "ssa_direct":
                    res = SIMS.setdefault("ssa", SSASimulator()).py_simulate(itf, tp)
                else:
                    itf.py_prep_deterministic_simulation()
                    res = SIMS.setdefault("det", DeterministicSimulator()).py_simulate(itf, tp)
                arr = np.array(res.py_get_result(), dtype=float)
                s2i = M.get_species2index()
                out = {s: arr[:, i].copy() for s, i in s2i.items()}
                out["time"] = np.array(res.py_get_timepoints(), dtype=float)
                return ("ok", out)
            kw = {"det": {}, "ssa": dict(stochastic=True), "safe": dict(stochastic=True, safe=True),
                  "vol": dict(stochastic=True, volume=vol), "delay": dict(stochastic=True, delay=True),
                  "delayvol": dict(stochastic=True, delay=True, volume=vol),
                  "ssa_direct": dict(stochastic=True), "det_direct": {}}[mode]
            if I is not None:
                kw = dict(kw)
                kw.pop("safe", None)
                res = py_simulate_model(tp, Interface=I, return_dataframe=False, **kw)
                arr = np.array(res.py_get_result(), dtype=float)
                out = {"__array__": arr, "time": np.array(res.py_get_timepoints(), dtype=float)}
                return ("ok", out)
            df = py_simulate_model(tp, Model=M, **kw)
        return ("ok", {c: df[c].to_numpy(dtype=float) for c in df.columns})
    except (ValueError, RuntimeError, SyntaxError, TypeError, KeyError, AttributeError, IndexError) as e:
        return ("raise", type(e).__name__, str(e)[:300])


def perturb_generator(burn):
    """Use bioscrape's generator in a few different ways (an odd number of draws of each kind).  After py_seed_random
    none of this may matter: a seeded result that depends on what was drawn before the seeding is hidden state that
    survives seeding."""
    import bioscrape.random as br
    for kind, n in burn:
        for _ in range(n):
            if kind == "normal":
                br.py_normal_rv(0.0, 1.0)
            elif kind == "uniform":
                br.py_uniform_rv()
            elif kind == "exponential":
                br.py_exponential_rv(2.0)
            elif kind == "gamma":
                br.py_gamma_rv(2.5, 1.0)
            elif kind == "erlang":
                br.py_erlang_rv(2.0, 1.0)
            elif kind == "binomial":
                br.py_binom_rnd_f(7.0, 0.4)
            elif kind == "randint":
                br.py_rand_int()


def by_name(out, M):
    """Result of a simulation through an interface (bare array) keyed by the species names of model M."""
    if "__array__" not in out:
        return out
    arr = out["__array__"]
    s2i = M.get_species2index()
    if arr.ndim != 2 or arr.shape[1] != len(s2i):
        return {"__shape__": np.array(arr.shape, dtype=float), "time": out["time"]}
    res = {s: arr[:, i].copy() for s, i in s2i.items()}
    res["time"] = out["time"]
    return res


def same_outcome(a, b, exact, scale_tol=1e-9):
    """None if the two outcomes agree, else a short description."""
    if a[0] != b[0]:
        return {"a": [a[0], a[1] if a[0] == "raise" else None, a[2] if a[0] == "raise" else None],
                "b": [b[0], b[1] if b[0] == "raise" else None, b[2] if b[0] == "raise" else None]}
    if a[0] == "raise":
        return None if a[1] == b[1] else {"a": list(a), "b": list(b)}
    ka = set(a[1]) - {"volume"} if ("volume" in a[1]) != ("volume" in b[1]) else set(a[1])
    kb = set(b[1]) - {"volume"} if ("volume" in a[1]) != ("volume" in b[1]) else set(b[1])
    if ka != kb:
        return {"columns_a": sorted(ka), "columns_b": sorted(kb)}
    big = 1.0
    for c in ka:
        v = b[1][c]
        if v.size and np.all(np.isfinite(v)):
            big = max(big, float(np.max(np.abs(v))))
    for c in sorted(ka):
        x, y = a[1][c], b[1][c]
        if x.shape != y.shape:
            return {"column": c, "shape_a": list(x.shape), "shape_b": list(y.shape)}
        if exact:
            ok = np.array_equal(x, y, equal_nan=True)
        else:
            ok = bool(np.all((np.abs(x - y) <= scale_tol * big) | (np.isnan(x) & np.isnan(y)) | (x == y)))
        if not ok:
            bad = ~((x == y) | (np.isnan(x) & np.isnan(y)))
            k = int(np.argmax(bad))
            return {"column": c, "row": k, "a": float(x[k]), "b": float(y[k]),
                    "a_head": [float(v) for v in x[:6]], "b_head": [float(v) for v in y[:6]]}
    return None


def dicts_ok(res, M, D, dummy_before, where):
    """Simulating never changes the initial condition nor any parameter (no rule assigns a parameter here)."""
    sd = dict(M.get_species_dictionary())
    for s in D.species:
        exp = D.x0.get(s, 0.0)
        if s not in sd or not (float(sd[s]) == float(exp)):
            res.fail(("initial_condition_changed", where), species=s, got=float(sd.get(s, math.nan)), expected=float(exp))
            return False
    pd = dict(M.get_parameter_dictionary())
    for p in D.known:
        if p in D.params and not (p in pd and float(pd[p]) == float(D.params[p])):
            res.fail(("parameter_changed", where), parameter=p, got=float(pd.get(p, math.nan)), expected=float(D.params[p]))
            return False
    for p, v in dummy_before.items():
        if not (p in pd and (float(pd[p]) == float(v) or (math.isnan(v) and math.isnan(float(pd[p]))))):
            res.fail(("parameter_changed", where), parameter=p, got=float(pd.get(p, math.nan)), expected=float(v))
            return False
    return True


# ---------------------------------------------------------------------------------------------------
# lineage models: the same definition reached by adding growth / division / death mechanisms one at a time to a model
# that was already initialised (and simulated) in between, against the model built at once
def _lineage_observe(M, ls, seed):
    from vf import lingen
    from bioscrape.lineage import py_SimulateSingleCell
    from bioscrape.random import py_seed_random
    grid = np.array(ls["grid"], dtype=float)
    py_seed_random(int(seed))
    with specmod.quiet():
        df = py_SimulateSingleCell(grid, Model=M)
    single = {c: df[c].to_numpy(dtype=float) for c in df.columns}
    recs, _ = lingen.simulate_lineage(M, ls["grid"], int(seed) + 1, ls["cells"])
    return {"single": single, "lineage": recs, "counts": [list(M.py_get_event_counts()), list(M.py_get_rule_counts())]}


def check_lineage_history(case):
    from vf import lingen
    res = R()
    ls, seed = case["lspec"], case["seed"]
    with specmod.quiet():
        F = lingen.to_lineage_model(ls)                       # built at once
        M = lingen.base_lineage_model(ls, reactions=not case.get("stepwise_reactions"))   # reached step by step
    used = False
    edit_after_use = False
    for st_ in case["steps"]:
        with specmod.quiet():
            if st_[0] == "init":
                M.py_initialize()
                used = True
            elif st_[0] == "sim":
                try:
                    lingen.simulate_lineage(M, ls["grid"][:6], st_[1], 1)
                except ValueError:
                    pass
                used = True
            elif st_[0] == "reaction":
                M.create_reaction(*specmod.reaction_tuple(ls["base"]["reactions"][st_[1]]))
                res.label("edit:base_reaction")
                edit_after_use = edit_after_use or used
            elif st_[0] == "set_param":
                M.set_parameter(st_[1], st_[2])
                res.label("edit:parameter_value")
                edit_after_use = edit_after_use or used
            elif st_[0] == "set_species":
                M.set_species({st_[1]: st_[2]})
                res.label("edit:species_value")
                edit_after_use = edit_after_use or used
            else:
                item = ls[st_[0]][st_[1]]
                {"growth": lingen.add_growth, "division": lingen.add_division, "death": lingen.add_death}[st_[0]](M, item)
                has_param = any(isinstance(v, str) and not any(ch in v for ch in "*+- ") for v in item["params"].values()) \
                    or any(not isinstance(v, str) for v in item["params"].values()) or "prop" in item
                res.label("edit:" + st_[0] + ":" + item["kind"] + (":with_parameter" if has_param else ":parameter_free"))
                if used:
                    edit_after_use = True
    try:
        exp = _lineage_observe(F, ls, seed)
    except ValueError as e:
        if "dividing too fast" in str(e):
            res.skip = "cells_divide_faster_than_grid"
            return res
        raise
    got = _lineage_observe(M, ls, seed)
    diff = same_outcome(("ok", got["single"]), ("ok", exp["single"]), exact=True)
    if diff is not None:
        res.fail(("history_dependent_result", "lineage_single_cell"), difference=diff, steps=case["steps"])
        return res
    if got["counts"] != exp["counts"]:
        res.fail(("history_dependent_result", "lineage_counts"), got=got["counts"], expected=exp["counts"])
        return res
    la, lb = got["lineage"], exp["lineage"]
    if len(la) != len(lb):
        res.fail(("history_dependent_result", "lineage_size"), got=len(la), expected=len(lb), steps=case["steps"])
        return res
    for i, (x, y) in enumerate(zip(la, lb)):
        for k in ("time", "data", "volume"):
            if x[k].shape != y[k].shape or not np.array_equal(x[k], y[k], equal_nan=True):
                res.fail(("history_dependent_result", "lineage_" + k), schnitz=i, steps=case["steps"])
                return res
    res.nontrivial = edit_after_use and bool(ls["growth"] or ls["division"] or ls["death"])
    if edit_after_use:
        res.label("lineage_edit_after_initialise_or_simulate")
    return res


def check(case):
    if case.get("kind") == "lineage_history":
        return check_lineage_history(case)
    if case.get("kind") == "_repeat":
        # replay form of a case whose verdict varied between executions in one process: run it several times
        last = None
        for _ in range(int(case.get("times", 8))):
            last = _check(case["case"])
            if last.fails:
                return last
        return last
    return _check(case)


def _check(case):
    SIMS.clear()
    from bioscrape.types import Model
    from bioscrape.simulator import ModelCSimInterface, SafeModelCSimInterface
    from bioscrape.random import py_seed_random
    import warnings
    warnings.filterwarnings("ignore")
    res = R()
    D = Def()
    start = case["start"]
    with specmod.quiet():
        M = Model(species=list(start["species"]), initialize_model=bool(start["init"]))
    for s in start["species"]:
        D.add_species(s)
    ifaces = []            # (interface, definition version when built, safe)
    n_sims = 0
    edits_after_use = False
    used = False           # initialised or simulated at least once
    sims_before_final = 0

    def structural():
        nonlocal edits_after_use
        D.version += 1
        if used:
            edits_after_use = True

    for op in case["ops"]:
        if res.fails:
            break
        kind = op[0]
        if kind == "species":
            M._add_species(op[1])
            D.add_species(op[1])
            structural()
        elif kind == "x0":
            with warnings.catch_warnings():
                warnings.simplefilter("ignore")
                M.set_species({op[1]: op[2]})
            if op[1] in D.species:
                D.x0[op[1]] = float(op[2])
                if used:
                    edits_after_use = True
        elif kind == "param":
            _, name, value, via = op
            if via == "create":
                M.create_parameter(name, value)
                if name not in D.known:
                    structural()
                D.know(name)
                D.params[name] = float(value)
            elif via == "set":
                M.set_parameter(name, value)
                if name not in D.known:
                    structural()
                D.know(name)
                D.params[name] = float(value)
            else:
                with warnings.catch_warnings():
                    warnings.simplefilter("ignore")
                    M.set_params({name: value})
                if name in D.known:      # documented: a name the model does not know is ignored with a warning
                    D.params[name] = float(value)
            if used:
                edits_after_use = True
        elif kind == "reaction":
            rx = op[1]
            tup = specmod.reaction_tuple(rx)
            with specmod.quiet():
                M.create_reaction(*tup)
            sp, pn = D.rx_symbols(rx)
            for s in sp:
                D.add_species(s)
            for p in pn:
                D.know(p)
            D.reactions.append(rx)
            structural()
        elif kind == "rule":
            rl = op[1]
            tup = specmod.rule_tuple(rl)
            with specmod.quiet():
                M.create_rule(tup[0], dict(tup[1]), *tup[2:])
            for s in sorted(ref.tree_symbols(rl["tree"])):
                if s not in D.species:
                    D.know(s)
            D.rules.append(rl)
            structural()
        elif kind == "init":
            try:
                with specmod.quiet():
                    M.py_initialize()
                if not D.complete():
                    res.fail(("initialise_accepts_missing_parameter",), known=D.known, set=sorted(D.params))
                used = True
            except ValueError as e:
                if D.complete():
                    res.fail(("initialise_fails_on_complete_definition",), message=str(e)[:300])
            res.label("op:init")
        elif kind == "iface":
            try:
                with specmod.quiet():
                    I = (SafeModelCSimInterface if op[1] else ModelCSimInterface)(M)
                ifaces.append((I, D.version, bool(op[1])))
                used = True
                res.label("op:iface")
            except ValueError:
                if D.complete():
                    raise
        elif kind == "sim":
            _, mode, grid, seed = op
            dummy = {p: float(v) for p, v in M.get_parameter_dictionary().items() if p not in D.known}
            got = run_sim(mode, grid, seed, M=M)
            n_sims += 1
            sims_before_final += 1
            res.label("op:sim:" + mode)
            if got[0] == "ok":
                used = True
                if not dicts_ok(res, M, D, dummy, "mid_history"):
                    break
            if seed is not None:
                with specmod.quiet():
                    try:
                        F = fresh_model(D)
                        exp = run_sim(mode, grid, seed, M=F)
                    except ValueError as e:
                        exp = ("raise", "ValueError", str(e)[:300])
                diff = same_outcome(got, exp, exact=mode in STOCH)
                if diff is not None:
                    res.fail(("history_dependent_result", "mid_history", mode), op=op, difference=diff)
                    break
        elif kind == "sim_iface":
            _, k, mode, grid, seed = op
            if not ifaces:
                continue
            I, ver, safe = ifaces[k % len(ifaces)]
            stale = ver != D.version
            got = run_sim(mode, grid, seed, I=I)
            res.label("op:sim_iface:" + ("stale" if stale else "current"))
            if got[0] == "raise" and got[1] == "RuntimeError" and "changed" in got[2]:
                res.label("interface_refused")      # the documented refusal is always acceptable
                continue
            # like with like: the same interface class on a model built at once from the current definition
            with specmod.quiet():
                try:
                    F = fresh_model(D)
                    FI = (SafeModelCSimInterface if safe else ModelCSimInterface)(F)
                    exp = run_sim(mode, grid, seed, I=FI)
                    if exp[0] == "ok":
                        exp = ("ok", by_name(exp[1], F))
                except ValueError as e:
                    exp = ("raise", "ValueError", str(e)[:300])
            if got[0] == "ok":
                got = ("ok", by_name(got[1], M))
            diff = same_outcome(got, exp, exact=mode in STOCH)
            if diff is not None:
                res.fail(("stale_interface_simulates_old_definition",) if stale else ("interface_result_differs",),
                         op=op, difference=diff)
                break
            if got[0] == "ok":
                sims_before_final += 1
        elif kind == "seed":
            py_seed_random(int(op[1]))
        else:
            raise ValueError(kind)

    # ---- final comparison: every mode, built at once (same and permuted declaration order), and repeatability ----
    if not res.fails:
        grid, seed = case["final_grid"], case["final_seed"]
        dummy = {p: float(v) for p, v in M.get_parameter_dictionary().items() if p not in D.known}
        order = case.get("perm")
        if order is not None:
            order = [i for i in order if i < len(D.species)]
            order += [i for i in range(len(D.species)) if i not in order]
        slept = False
        for mode in case["final_modes"]:
            got = run_sim(mode, grid, seed, M=M)
            if got[0] == "ok" and not dicts_ok(res, M, D, dummy, "final"):
                break
            if mode in STOCH and seed in BOUNDARY_SEEDS and not slept:
                slept = True
                # a seed at a word boundary: were it (or a truncation of it) mistaken for "no seed", the generator would be
                # seeded from the clock in whole seconds - the repetition is therefore made in another second
                time.sleep(1.05)
                res.label("boundary_seed_repeated_after_a_second")
            again = run_sim(mode, grid, seed, M=M)
            diff = same_outcome(again, got, exact=True)
            if diff is not None:
                res.fail(("not_repeatable", mode), difference=diff, seed=seed)
                break
            perturb_generator(case.get("burn") or [["normal", 1], ["uniform", 1]])
            third = run_sim(mode, grid, seed, M=M)
            diff = same_outcome(third, got, exact=True)
            if diff is not None:
                res.fail(("seeded_result_depends_on_earlier_draws", mode), difference=diff, burn=case.get("burn"))
                break
            with specmod.quiet():
                try:
                    exp = run_sim(mode, grid, seed, M=fresh_model(D))
                except ValueError as e:
                    exp = ("raise", "ValueError", str(e)[:300])
            diff = same_outcome(got, exp, exact=mode in STOCH)
            if diff is not None:
                res.fail(("history_dependent_result", "final", mode), difference=diff)
                break
            nonrep = any(r.get("freq", "repeated") != "repeated" or r["type"] == "ode" for r in D.rules)
            # dt / scheduled / ode rules act inside the integrator's right-hand side at whatever internal times it
            # visits; that is repeatable for identical arithmetic only, so a permuted build is not compared there
            skip_perm = mode in ("det", "det_direct") and nonrep
            if not skip_perm and order is not None and order != list(range(len(D.species))):
                with specmod.quiet():
                    try:
                        exp2 = run_sim(mode, grid, seed, M=fresh_model(D, order))
                    except ValueError as e:
                        exp2 = ("raise", "ValueError", str(e)[:300])
                diff = same_outcome(got, exp2, exact=mode in STOCH, scale_tol=2e-5)
                if diff is not None:
                    res.fail(("declaration_order_dependent_result", mode), difference=diff, order=order)
                    break
            res.label("final:" + mode + ":" + got[0])
    if edits_after_use:
        res.label("edit_after_initialise_or_simulate")
    if sims_before_final:
        res.label("simulation_before_final_compare")
    res.nontrivial = edits_after_use and sims_before_final >= 1 and D.complete() and len(D.reactions) >= 1
    return res


# ---------------------------------------------------------------------------------------------------
# generation: a final definition, an order of edits that reaches it, and interleaved non-edit operations
def _rule(draw, b, target, species, grid_times):
    kind = draw(st.sampled_from(["assign_rep", "additive_rep", "counter_dt", "ode", "scheduled", "start"]))
    s1 = draw(st.sampled_from(species))
    if kind == "assign_rep":
        p = b.new_param(draw(st.sampled_from([0.5, 1.0, 2.0])))
        tree = ["add", ["mul", gen.sym(p), gen.sym(s1)], gen.num(1.0)]
        return {"type": "assignment", "eq": f"{target} = {ref.show(tree)}", "freq": "repeated", "tree": tree, "dest": target}
    if kind == "additive_rep":
        s2 = draw(st.sampled_from(species))
        tree = ["add", gen.sym(s1), gen.sym(s2)]
        return {"type": "additive", "eq": f"{target} = {s1} + {s2}", "freq": "repeated", "tree": tree, "dest": target}
    if kind == "counter_dt":
        tree = ["add", gen.sym(target), gen.num(1.0)]
        return {"type": "assignment", "eq": f"{target} = {target} + 1", "freq": "dt", "tree": tree, "dest": target}
    if kind == "ode":
        p = b.new_param(draw(st.sampled_from([0.5, 1.0, -0.25])))
        return {"type": "ode", "eq": p, "target": target, "freq": "dt", "tree": gen.sym(p), "dest": target}
    if kind == "scheduled":
        T = draw(st.sampled_from(grid_times))
        v = float(draw(st.integers(3, 40)))
        return {"type": "assignment", "eq": f"{target} = {ref._num_str(v)}", "freq": repr(float(T)), "tree": gen.num(v),
                "dest": target}
    v = float(draw(st.integers(3, 40)))
    return {"type": "assignment", "eq": f"{target} = {ref._num_str(v)}", "freq": "start", "tree": gen.num(v), "dest": target}


@st.composite
def cases(draw, max_extra):
    species = draw(gen.species_names(1, 3))
    targets = [t for t in ["W", "U"] if t not in species][:draw(st.sampled_from([0, 0, 1, 2]))]
    b = gen.Builder(draw, species + targets)
    dt = draw(st.sampled_from([0.125, 0.25, 0.5, 1.0]))
    npts = draw(st.integers(3, 9))
    grid = [i * dt for i in range(npts)]
    for _ in range(draw(st.integers(1, 4))):
        rx = gen.finite_reaction(b, species, safe=False)
        if rx["p"] and draw(st.integers(0, 3)) == 0:
            # move the products into a delayed part: the net reaction (and with it boundedness) is unchanged
            typ = draw(st.sampled_from(["fixed", "gaussian", "gamma"]))
            if typ == "fixed":
                pd = {"delay": b.value_entry(gen.logfl(0.05, 3))}
            elif typ == "gaussian":
                pd = {"mean": b.value_entry(gen.logfl(0.05, 3)), "std": b.value_entry(gen.logfl(0.02, 1))}
            else:
                pd = {"k": b.value_entry(st.sampled_from([1.0, 2.0, 3.0])), "theta": b.value_entry(gen.logfl(0.05, 1.5))}
            rx["delay"] = {"type": typ, "r": [], "p": list(rx["p"]), "pd": pd}
            rx["p"] = []
        b.reactions.append(rx)
    for tgt in targets:
        b.rules.append(_rule(draw, b, tgt, species, grid[1:-1] or grid[1:]))
    x0 = {s: float(draw(st.integers(0, 10))) for s in species + targets if draw(st.integers(0, 5)) > 0}

    # ---- edit items ---------------------------------------------------------------------------------------
    start_species = [s for s in species + targets if draw(st.booleans())]
    items = [("species", s) for s in species + targets if s not in start_species and draw(st.booleans())]
    items += [("x0", s, v) for s, v in x0.items()]
    items += [("param", p, v, draw(st.sampled_from(["create", "set", "set", "set_params"]))) for p, v in b.params.items()]
    n_rx, n_rl = len(b.reactions), len(b.rules)
    items += [("reaction", i) for i in range(n_rx)] + [("rule", i) for i in range(n_rl)]
    items = list(draw(st.permutations(items)))
    # reactions and rules keep their relative order (it is part of the definition)
    rpos = [k for k, it in enumerate(items) if it[0] == "reaction"]
    for j, k in enumerate(rpos):
        items[k] = ("reaction", j)
    lpos = [k for k, it in enumerate(items) if it[0] == "rule"]
    for j, k in enumerate(lpos):
        items[k] = ("rule", j)

    all_species = species + targets
    pnames = list(b.params)

    def extra():
        kind = draw(st.sampled_from(["init", "init", "sim", "sim", "sim", "iface", "iface", "sim_iface", "sim_iface",
                                     "sim_iface", "seed", "tmp_param", "tmp_param", "tmp_x0", "iface_block"]))
        if kind == "iface_block":
            # build an interface, use it, change values only (no structural edit), use it again
            blk = [["iface", draw(st.sampled_from([0, 0, 1]))]]
            for _ in range(draw(st.integers(1, 3))):
                blk.append(["sim_iface", -1, draw(st.sampled_from(IFACE_MODES)), grid, draw(st.integers(1, 2 ** 40))])
                if pnames and draw(st.booleans()):
                    blk.append(["param", draw(st.sampled_from(pnames)), draw(gen.logfl(1.0, 5)),
                                draw(st.sampled_from(["set", "set_params"]))])
                else:
                    blk.append(["x0", draw(st.sampled_from(all_species)), float(draw(st.integers(0, 10)))])
            blk.append(["sim_iface", -1, draw(st.sampled_from(IFACE_MODES)), grid, draw(st.integers(1, 2 ** 40))])
            return blk
        if kind == "init":
            return ["init"]
        if kind == "sim":
            seed = draw(st.one_of(st.none(), st.integers(1, 2 ** 40), st.integers(1, 2 ** 40)))
            return ["sim", draw(st.sampled_from(MODES)), grid, seed]
        if kind == "iface":
            return ["iface", draw(st.sampled_from([0, 0, 1]))]
        if kind == "sim_iface":
            return ["sim_iface", draw(st.integers(0, 3)), draw(st.sampled_from(IFACE_MODES)), grid,
                    draw(st.integers(1, 2 ** 40))]
        if kind == "seed":
            return ["seed", draw(st.integers(1, 2 ** 40))]
        if kind == "tmp_param" and pnames:
            # temporary values stay in [1, 5]: valid for every role a named parameter can play here (a gamma-delay
            # shape below 1 is outside the domain of the delay sampler)
            return ["param", draw(st.sampled_from(pnames)), draw(gen.logfl(1.0, 5)),
                    draw(st.sampled_from(["set", "set_params", "create"]))]
        return ["x0", draw(st.sampled_from(all_species)), float(draw(st.integers(0, 10)))]

    declared = set(start_species)
    ops = []
    deferred_final = []        # final values re-applied at the end so that temporary values never survive by accident

    def need_species(names):
        for s in names:
            if s not in declared:
                ops.append(["species", s])
                declared.add(s)

    budget = max_extra
    for it in items:
        n_extra = draw(st.sampled_from([0, 0, 1, 1, 2]))
        for _ in range(min(n_extra, budget)):
            e = extra()
            ops.extend(e if isinstance(e[0], list) else [e])
            budget -= 1
        if it[0] == "species":
            if it[1] not in declared:
                ops.append(["species", it[1]])
                declared.add(it[1])
        elif it[0] == "x0":
            need_species([it[1]])
            ops.append(["x0", it[1], it[2]])
        elif it[0] == "param":
            ops.append(["param", it[1], it[2], it[3]])
            if it[3] == "set_params":
                deferred_final.append(["param", it[1], it[2], "set"])
        elif it[0] == "reaction":
            rx = b.reactions[it[1]]
            syms = set()
            if rx["type"] == "general":
                syms = {s for s in ref.tree_symbols(rx["tree"]) if s in all_species}
            else:
                syms = {v for k, v in rx["pd"].items() if k in ("s1", "d") and isinstance(v, str)}
            need_species(sorted(syms))          # a name in a rate that is not yet a species would be read as a parameter
            ops.append(["reaction", rx])
            declared.update(rx["r"]); declared.update(rx["p"])
            if rx.get("delay"):
                declared.update(rx["delay"]["p"])
        else:
            rl = b.rules[it[1]]
            need_species(sorted({s for s in ref.tree_symbols(rl["tree"]) if s in all_species} | {rl["dest"]}))
            ops.append(["rule", rl])
    for _ in range(min(draw(st.integers(0, 3)), budget)):
        e = extra()
        ops.extend(e if isinstance(e[0], list) else [e])
    ops.extend(deferred_final)
    if draw(st.integers(0, 3)) == 0:
        ops.append(["init"])
    nfinal = draw(st.integers(2, 4))
    final_modes = draw(st.lists(st.sampled_from(MODES), min_size=nfinal, max_size=nfinal, unique=True))
    perm = list(draw(st.permutations(list(range(len(all_species)))))) if draw(st.booleans()) else None
    burn = [[k, draw(st.sampled_from([1, 1, 3]))] for k in
            draw(st.lists(st.sampled_from(["normal", "normal", "uniform", "exponential", "gamma", "erlang", "binomial",
                                           "randint"]), min_size=1, max_size=3, unique=True))]
    return {"kind": "history", "burn": burn, "start": {"species": start_species, "init": draw(st.booleans())}, "ops": ops,
            "final_grid": grid, "final_seed": draw(st.sampled_from(BOUNDARY_SEEDS)) if draw(st.sampled_from([False] * 79 + [True])) else draw(st.integers(1, 2 ** 40)), "final_modes": final_modes, "perm": perm}


@st.composite
def lineage_history_cases(draw):
    from vf import lingen
    ls = draw(lingen.lineage_specs(max_pts=24, rich=False))
    items = [("growth", i) for i in range(len(ls["growth"]))] + [("division", i) for i in range(len(ls["division"]))] + \
        [("death", i) for i in range(len(ls["death"]))]
    order = list(draw(st.permutations(items)))
    # within one class the declaration order is part of the definition
    for cls in ("growth", "division", "death"):
        pos = [k for k, it in enumerate(order) if it[0] == cls]
        for j, k in enumerate(pos):
            order[k] = (cls, j)
    base = ls["base"]
    stepwise = bool(base["reactions"]) and draw(st.booleans())
    if stepwise:            # the base reactions are added one at a time too (in their declared order)
        for i in range(len(base["reactions"])):
            order.insert(draw(st.integers(0 if i == 0 else order.index(("reaction", i - 1)) + 1, len(order))), ("reaction", i))
    restore = []
    steps = []
    for it in order:
        for _ in range(draw(st.sampled_from([0, 1, 1, 2]))):
            what = draw(st.sampled_from(["init", "init", "sim", "sim", "param", "species"]))
            if what == "init":
                steps.append(["init"])
            elif what == "sim":
                steps.append(["sim", draw(st.integers(1, 2 ** 31))])
            elif what == "param" and base["params"]:
                # a temporary value, put back before the final comparison
                name = draw(st.sampled_from(sorted(base["params"])))
                steps.append(["set_param", name, float(base["params"][name]) * draw(st.sampled_from([0.5, 2.0]))])
                if ["set_param", name, float(base["params"][name])] not in restore:
                    restore.append(["set_param", name, float(base["params"][name])])
            elif what == "species":
                name = draw(st.sampled_from(sorted(base["x0"])))
                steps.append(["set_species", name, float(base["x0"][name]) + draw(st.sampled_from([1.0, 3.0]))])
                if ["set_species", name, float(base["x0"][name])] not in restore:
                    restore.append(["set_species", name, float(base["x0"][name])])
        steps.append(list(it))
    steps += restore
    if draw(st.booleans()):
        steps.append(["init"])
    return {"kind": "lineage_history", "lspec": ls, "steps": steps, "seed": draw(st.integers(1, 2 ** 40)),
            "stepwise_reactions": stepwise}


def search(ctx):
    scale = ctx.job.get("scale", 1)
    n = (150000 if ctx.thorough else 10000) * scale
    ctx.run_hypothesis("histories", cases(14 if ctx.thorough else 8), check, ctx.share(n))
    ctx.run_hypothesis("lineage_histories", lineage_history_cases(), check, ctx.share((30000 if ctx.thorough else 2500) * scale))
