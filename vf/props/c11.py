"""C11 - volume-aware simulation scales rates with volume and tracks growth and division."""
import math

import numpy as np
from hypothesis import strategies as st

from vf import cme as cmemod, distcheck, gen, ref, spec as specmod, stats
from vf.core import R


# ---------------------------------------------------------------------------------------------------
# (a) constant volume: distribution = master equation with volume-scaled propensities
def _paths_factory(sp, grid, how, vol):
    from bioscrape.simulator import ModelCSimInterface, SafeModelCSimInterface, VolumeSSASimulator, py_simulate_model
    from bioscrape.types import Volume
    from bioscrape.random import py_seed_random
    with specmod.quiet():
        M = specmod.to_model(sp)
        # the safe interface has its own propensity loops; on these networks (every rate vanishes with its reactants)
        # its guards never change a rate, so the same master equation is the reference
        I = SafeModelCSimInterface(M) if how == "safe_simulator" else ModelCSimInterface(M)
    tp = np.array(grid, dtype=float)
    I.py_set_dt(float(tp[1] - tp[0]))
    order = [M.get_species2index()[s] for s in sp["species"]]
    sim = VolumeSSASimulator()

    def simulate(n, seed):
        py_seed_random(seed)
        out = np.empty((n, len(tp), len(order)))
        with specmod.quiet():
            for i in range(n):
                if how == "model_api":
                    df = py_simulate_model(tp, Model=M, stochastic=True, volume=vol)
                    out[i] = df[sp["species"]].to_numpy()
                else:
                    v = Volume()
                    v.py_set_volume(vol)
                    out[i] = sim.py_volume_simulate(I, v, tp).py_get_result()[:, order]
        return out
    return simulate


def check_const(case):
    res = R()
    sp, grid, vol, how = case["spec"], case["grid"], case["vol"], case["how"]
    caps = case.get("caps")
    try:
        cme = cmemod.CME(sp, mode="stochvol", vol=vol, cap=case.get("cap", 600), overflow_ok=caps is not None,
                         species_caps=caps)
    except cmemod.TooLarge:
        res.skip = "state space above cap"
        return res
    if cme.overflow is not None:
        margs, _ = cme.marginals_and_joints(grid)
        if max(m[-1] for m in margs) > 1e-12:
            res.skip = "finite-state projection loses more than 1e-12"
            return res
    n1 = case["n1"] if how != "model_api" else max(case["n1"] // 20, 300)
    rej, report = distcheck.compare(cme, grid, _paths_factory(sp, grid, how, vol), n1, case["seed"], case["seed"] + 104729)
    orders = sorted({len(rx["r"]) for rx in sp["reactions"] if rx["type"] == "massaction"})
    types = sorted({rx["type"] for rx in sp["reactions"]})
    for name, p, info in rej:
        kind = "impossible_state" if info.get("impossible") else ("marginal" if name.startswith("marginal") else "joint")
        res.fail(("volume_distribution", kind, how, "+".join(types), "orders" + "".join(map(str, orders))),
                 test=name, pvalue=p, info=info, report=report, volume=vol)
        break
    res.label("const:" + how, *["type:" + t for t in types], *[f"order{o}" for o in orders])
    res.nontrivial = vol != 1.0 and (any(o != 1 for o in orders) or any(t != "massaction" for t in types)) \
        and distcheck.spread(cme, grid) >= 2
    return res


# ---------------------------------------------------------------------------------------------------
# (b) growth and division
def check_growth(case):
    from bioscrape.simulator import ModelCSimInterface, VolumeSSASimulator
    from bioscrape.types import StochasticTimeThresholdVolume, StateDependentVolume
    from bioscrape.random import py_seed_random
    res = R()
    sp = case["spec"]
    dt, n = case["dt"], case["n"]
    k0 = int(case.get("first_step", 0))     # the first reported time may lie after the start of the simulation (time 0)
    tp = np.array([(k0 + i) * dt for i in range(n)], dtype=float)
    V0, g = case["V0"], case["g"]
    with specmod.quiet():
        M = specmod.to_model(sp)
        I = ModelCSimInterface(M)
    I.py_set_dt(dt)
    x0 = specmod.state_vector(M, sp["x0"])
    params = np.array(M.get_parameter_values(), dtype=float)
    py_seed_random(case["seed"])
    noise = case["noise"]
    if case["vtype"] == "time":
        cycle = math.log(2.0) / g
        # bioscrape hard-codes ln 2 = 0.69314718056: use its own growth constant for the reference law
        g_eff = 0.69314718056 / cycle
        v = StochasticTimeThresholdVolume(cycle, case["Vdiv"], noise)
        v.py_initialize(x0, params, 0.0, V0)
        t_div = math.log(case["Vdiv"] / V0) / g_eff
    else:
        g_eff = g
        v = StateDependentVolume()
        with specmod.quiet():
            v.setup(case["Vdiv"], noise, case["growth_expr"], M)
        v.py_initialize(x0, params, 0.0, V0)
        t_div = None
    if case.get("warm_factor"):
        # the volume object was used before, on a grid with another step, and is initialised again for this run
        wdt = dt * case["warm_factor"]
        I.py_set_dt(wdt)
        with specmod.quiet():
            VolumeSSASimulator().py_volume_simulate(I, v, np.array([i * wdt for i in range(4)], dtype=float))
        v.py_initialize(x0, params, 0.0, V0)
        I.py_set_dt(dt)
        py_seed_random(case["seed"])
        res.label("volume_object_used_before_with_another_step")
    with specmod.quiet():
        r = VolumeSSASimulator().py_volume_simulate(I, v, tp)
    vols = np.asarray(r.py_get_volume(), dtype=float)
    times = np.asarray(r.py_get_timepoints(), dtype=float)
    data = np.asarray(r.py_get_result(), dtype=float)
    divided = bool(r.py_cell_divided())
    m = len(times)
    zero_prop = case["zero_propensity"]
    tag = "zero_propensity" if zero_prop else "positive_propensity"
    res.label("growth:" + case["vtype"], tag, "noise" if noise > 0 else "no_noise")
    if m == 0 and k0 > 0 and divided:
        res.skip = "division before the first reported time"
        return res
    if m == 0 or m > n or not np.array_equal(times, tp[:m]) or len(vols) != m or data.shape[0] != m:
        res.fail(("result_not_a_prefix_of_the_grid", tag), times=[float(x) for x in times[:5]], rows=int(m), requested=int(n))
        return res
    if m < n and not divided:
        # (a division reported exactly at the last requested time leaves a full-length result that is flagged:
        # only "truncated implies flagged" is part of the claim)
        res.fail(("truncated_but_not_flagged_divided", tag), rows=int(m), requested=int(n), divided=divided)
        return res
    if np.any(vols <= 0) or np.any(np.diff(vols) < -1e-12 * vols[:-1]):
        res.fail(("volume_not_positive_nondecreasing", tag), volumes=[float(x) for x in vols[:8]])
        return res
    eps = 1e-9
    for j in range(m):
        lo = V0 * math.exp(g_eff * (times[j] - dt)) * (1 - eps)
        hi = V0 * math.exp(g_eff * (times[j] + dt)) * (1 + eps)
        if not (min(lo, V0) - 1e-12 <= vols[j] <= hi):
            res.fail(("volume_not_within_one_step_of_growth_law", tag, case["vtype"]), row=j, time=float(times[j]),
                     got=float(vols[j]), lower=lo, upper=hi, V0=V0, g=g_eff, dt=dt)
            return res
    if noise == 0:
        if case["vtype"] == "time":
            kstar = math.ceil(t_div / dt - 1e-9)
        else:
            # first step k at which V0 e^{g k dt} > Vdiv (the volume model reports division when the volume exceeds it)
            kstar = 1
            while V0 * math.exp(g_eff * kstar * dt) <= case["Vdiv"] * (1 + 1e-12) and kstar < 10 * n + 10:
                kstar += 1
        near_boundary = (abs(t_div / dt - round(t_div / dt)) < 1e-6) if t_div is not None else \
            any(abs(V0 * math.exp(g_eff * k * dt) / case["Vdiv"] - 1) < 1e-9 for k in (kstar - 1, kstar))
        if near_boundary:
            res.skip = "division exactly on a grid step"
            return res
        if k0:
            res.label("grid_starts_after_simulation_start")
            if kstar <= k0 + 1:
                res.skip = "division before the first reported time"
                return res
        kstar -= k0          # from here on counted in rows of the reported grid
        if kstar <= n - 2:
            res.label("division_inside_horizon")
            if not divided or abs((m - 1) - kstar) > 1:
                res.fail(("division_step", tag, case["vtype"]), divided=divided, last_row_time=float(times[-1]),
                         expected_time=(kstar + k0) * dt, dt=dt)
                return res
        elif kstar >= n + 1:
            res.label("division_beyond_horizon")
            if divided or m != n:
                res.fail(("divided_before_time", tag, case["vtype"]), divided=divided, rows=int(m), requested=int(n),
                         expected_division_time=(kstar + k0) * dt)
                return res
    res.nontrivial = zero_prop or (divided and m < n)
    return res


def check(case):
    if case["kind"] == "const":
        return check_const(case)
    return check_growth(case)


# ---------------------------------------------------------------------------------------------------
@st.composite
def open_networks(draw):
    """Birth-death families with zero-order inflow (exercise the k*V law); finite-state projection with caps."""
    b = gen.Builder(draw, ["A", "B"])
    kin = draw(gen.logfl(0.05, 1.5))
    gdeg = draw(gen.logfl(0.4, 3.0))
    b.reactions.append(gen.massaction(b, [], ["A"], k=b.value_entry(st.just(kin))))
    b.reactions.append(gen.massaction(b, ["A"], [], k=b.value_entry(st.just(gdeg))))
    extra = draw(st.sampled_from(["none", "dimer_deg", "convert", "bi"]))
    if extra == "dimer_deg":
        b.reactions.append(gen.massaction(b, ["A", "A"], []))
    elif extra == "convert":
        b.reactions.append(gen.massaction(b, ["A"], ["B"]))
        b.reactions.append(gen.massaction(b, ["B"], [], k=b.value_entry(gen.logfl(0.4, 3.0))))
    elif extra == "bi":
        b.reactions.append(gen.massaction(b, ["A", "B"], ["B"]))
    x0 = {"A": float(draw(st.integers(0, 6))), "B": float(draw(st.integers(0, 4)))}
    return b.spec(x0)


@st.composite
def const_cases(draw, n1):
    how = draw(st.sampled_from(["simulator"] * 5 + ["safe_simulator"] * 2 + ["model_api"]))
    vol = draw(st.one_of(st.sampled_from([0.5, 2.0, 1.0, 4.0, 0.25]), gen.logfl(0.2, 5)))
    dt = draw(st.sampled_from([0.125, 0.25, 0.5, 1.0]))
    grid = [i * dt for i in range(draw(st.integers(2, 5)))]
    if draw(st.integers(0, 3)) == 0:
        # requested times need not be evenly spaced: some closer together than the first step (the simulator's volume tick)
        grid = [0.0, dt, 1.25 * dt, 1.5 * dt, 2.5 * dt][:draw(st.integers(3, 5))]
    if draw(st.integers(0, 3)) == 0:
        sp = draw(open_networks())
        caps = {"A": 70, "B": 70}
        return {"kind": "const", "spec": sp, "grid": grid, "vol": min(vol, 4.0), "how": how, "n1": n1, "caps": caps,
                "cap": 3000, "seed": draw(st.integers(1, 2 ** 40))}
    sp = draw(gen.finite_networks())
    return {"kind": "const", "spec": sp, "grid": grid, "vol": vol, "how": how, "n1": n1,
            "seed": draw(st.integers(1, 2 ** 40))}


@st.composite
def growth_cases(draw):
    zero = draw(st.sampled_from([False, False, True]))
    b = gen.Builder(draw, ["A", "B"], named_params=False)
    if zero:
        variant = draw(st.sampled_from(["no_reactions", "dies_out", "never_possible"]))
        if variant == "dies_out":
            b.reactions.append(gen.massaction(b, ["A"], [], k=draw(gen.logfl(5, 50))))
        elif variant == "never_possible":
            b.reactions.append(gen.massaction(b, ["B", "B"], ["A"]))
        x0 = {"A": float(draw(st.integers(0, 3))), "B": 0.0}
    else:
        b.reactions.append(gen.massaction(b, ["A"], ["B"]))
        b.reactions.append(gen.massaction(b, ["B"], ["A"]))
        x0 = {"A": float(draw(st.integers(3, 30))), "B": float(draw(st.integers(0, 10)))}
    sp = b.spec(x0)
    sp["params"]["gr"] = 0.0
    vtype = draw(st.sampled_from(["time", "state"]))
    g = draw(gen.logfl(0.01, 2.0))
    V0 = draw(gen.nice(0.5, 2.0))
    Vdiv = V0 * draw(gen.nice(1.2, 4.0))
    dt = draw(st.sampled_from([0.0625, 0.125, 0.25, 0.5, 1.0]))
    t_div = math.log(Vdiv / V0) / g
    where = draw(st.sampled_from(["inside", "inside", "beyond"]))
    if where == "inside":
        n = int(min(max(math.ceil(t_div / dt) + draw(st.integers(2, 6)), 3), 400))
    else:
        n = int(max(min(math.floor(t_div / dt) - draw(st.integers(1, 4)), 200), 2))
    sp["params"]["gr"] = g
    case = {"kind": "growth", "spec": sp, "vtype": vtype, "g": g, "V0": V0, "Vdiv": Vdiv, "dt": dt, "n": n,
            "noise": draw(st.sampled_from([0.0, 0.0, 0.0, 0.05, 0.2])), "zero_propensity": zero,
            "growth_expr": draw(st.sampled_from(["gr", "gr + 0*A", "gr*1"])), "seed": draw(st.integers(1, 2 ** 40)),
            "first_step": draw(st.sampled_from([0, 0, 0, 1, 2, 5])),
            "warm_factor": draw(st.sampled_from([None, None, None, 4.0, 0.25, 8.0]))}
    return case


def search(ctx):
    scale = ctx.job.get("scale", 1)
    n1 = 40000 if ctx.thorough else 10000
    ctx.run_hypothesis("constant_volume", const_cases(n1), check, ctx.share((5000 if ctx.thorough else 500) * scale),
                       shrink=False)
    ctx.run_hypothesis("growth_division", growth_cases(), check, ctx.share((200000 if ctx.thorough else 12000) * scale))
