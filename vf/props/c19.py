"""C19 - division conserves molecules and volume; lineage records are consistent.

  splitter       exact identities of every partition (conservation, duplication, 'perfect' rounding, integrality,
                 volume sum) for the three splitter classes over generated mother states
  splitter_stat  binomially partitioned species follow Binomial(n, daughter volume fraction): chi-square against the
                 pmf (no noise) / randomized probability-integral transform + KS (with noise); two-stage protocol
  lineage        simulated lineages: mutual links, daughters start at the mother's division time from a valid
                 partition of her last row, contiguous time axes, positive volume and conserved per-cell totals on
                 every row, rows keep following the growth law after the reactions have died out
  single         py_SimulateSingleCell alone: same per-row invariants, truncated <=> flagged divided or dead
"""
import math

import numpy as np
from hypothesis import strategies as st

from vf import gen, lingen, spec as specmod, stats
from vf.core import R


# ---------------------------------------------------------------------------------------------------
# splitters
def make_splitter(case):
    """Returns (splitter, modes per species index, volume mode, mother factory)."""
    from bioscrape.types import Model
    from bioscrape.simulator import PerfectBinomialVolumeSplitter, GeneralVolumeSplitter, VolumeCellState
    from bioscrape.lineage import LineageVolumeSplitter, LineageVolumeCellState
    names = case["species"]
    with specmod.quiet():
        M = Model(species=list(names), reactions=[([names[0]], [], "massaction", {"k": 1.0})],
                  initial_condition_dict={s: 0 for s in names})
    idx = M.get_species2index()
    cls = case["cls"]
    if cls == "perfbin":
        vs = PerfectBinomialVolumeSplitter()
        modes = {s: "binomial" for s in names}
        vmode = "perfect"
    elif cls == "general":
        vs = GeneralVolumeSplitter()
        opt = {"perfect": [s for s in names if case["modes"][s] == "perfect"],
               "duplicate": [s for s in names if case["modes"][s] == "duplicate"]}
        if case.get("list_binomial"):
            opt["binomial"] = [s for s in names if case["modes"][s] == "binomial"]
        if case.get("reconfigure"):
            # the same splitter object configured before with other modes: only the last configuration counts
            vs.py_set_partitioning({"perfect": list(names[::2]), "duplicate": list(names[1::2])}, M)
            opt = {k_: v_ for k_, v_ in opt.items() if v_}       # (keys with empty lists left out altogether)
        vs.py_set_partitioning(opt, M)
        vs.py_set_partition_noise(float(case["noise"]))
        modes = dict(case["modes"])
        vmode = "binomial"
    else:
        opt = dict(case["options"])
        vs = LineageVolumeSplitter(M, options=opt, partition_noise=float(case["noise"]))
        default = opt.get("default", "binomial")
        modes = {s: opt.get(s, default) for s in names}
        vmode = opt.get("volume", default)

    def mother(state, volume, time):
        x = np.zeros(len(names))
        for s, v in zip(names, state):
            x[idx[s]] = v
        if cls == "lineage":
            return LineageVolumeCellState(v0=float(volume) / 2, t0=max(0.0, time - 1.0), state=x, volume=float(volume),
                                          time=float(time))
        return VolumeCellState(time=float(time), state=x, volume=float(volume))

    return vs, modes, vmode, mother, idx


def partition_identities(res, cls, names, idx, modes, vmode, mstate, V, t, d, e, tag):
    """Exact oracle for one partition.  Returns p (daughter d's volume fraction) or None after a failure."""
    ds, es = np.asarray(d.py_get_state(), dtype=float), np.asarray(e.py_get_state(), dtype=float)
    vd, ve = float(d.py_get_volume()), float(e.py_get_volume())
    if not (vd > 0 and ve > 0):
        res.fail(("daughter_volume_not_positive", cls), vd=vd, ve=ve, V=V)
        return None
    if vmode == "duplicate":
        if vd != V or ve != V:
            res.fail(("volume_not_duplicated", cls), vd=vd, ve=ve, V=V)
            return None
    elif abs(vd + ve - V) > 1e-12 * V:
        res.fail(("daughter_volumes_do_not_sum_to_mother", cls, vmode), vd=vd, ve=ve, V=V)
        return None
    if vmode == "perfect" and abs(vd - ve) > 1e-12 * V:
        res.fail(("perfect_volume_split_unequal", cls), vd=vd, ve=ve)
        return None
    if float(d.py_get_time()) != t or float(e.py_get_time()) != t:
        res.fail(("daughter_time_differs_from_division_time", cls), td=float(d.py_get_time()), te=float(e.py_get_time()), t=t)
        return None
    p = vd / V
    for s, n in zip(names, mstate):
        i = idx[s]
        a, b = ds[i], es[i]
        m = modes[s]
        if a != int(a) or b != int(b) or a < 0 or b < 0:
            res.fail(("daughter_count_not_a_nonnegative_integer", cls, m), species=s, d=float(a), e=float(b), mother=n)
            return None
        if m == "duplicate":
            if a != n or b != n:
                res.fail(("duplicated_species_not_copied", cls), species=s, d=float(a), e=float(b), mother=n)
                return None
        else:
            if a + b != n:
                res.fail(("molecules_not_conserved", cls, m), species=s, d=float(a), e=float(b), mother=n, tag=tag)
                return None
            if m == "perfect" and not abs(a - p * n) < 1 + 1e-9:
                res.fail(("perfect_split_off_by_one_or_more", cls), species=s, d=float(a), mother=n, p=p)
                return None
    return p


def check_splitter(case):
    from bioscrape.random import py_seed_random
    res = R()
    vs, modes, vmode, mother, idx = make_splitter(case)
    names = case["species"]
    py_seed_random(case["seed"])
    res.label("splitter:" + case["cls"], "volume_mode:" + vmode)
    for m in set(modes.values()):
        res.label("species_mode:" + m)
    for k, (state, V, t) in enumerate(case["mothers"]):
        mo = mother(state, V, t)
        before = np.array(mo.py_get_state(), dtype=float).copy()
        for rep in range(case["reps"]):
            d, e = vs.py_partition(mo)
            if partition_identities(res, case["cls"], names, idx, modes, vmode, state, float(V), float(t), d, e, k) is None:
                return res
            if d is e or d is mo or e is mo:
                res.fail(("partition_returns_shared_objects", case["cls"]))
                return res
        if not np.array_equal(before, np.asarray(mo.py_get_state(), dtype=float)) or float(mo.py_get_volume()) != float(V):
            res.fail(("partition_modifies_mother", case["cls"]))
            return res
    res.nontrivial = any(sum(s) > 0 for s, _, _ in case["mothers"])
    return res


def check_splitter_stat(case):
    from bioscrape.random import py_seed_random
    import scipy.stats as sst
    res = R()
    vs, modes, vmode, mother, idx = make_splitter(case)
    names = case["species"]
    state, V, t = case["mother"]
    if case.get("float_noise"):
        # amounts that are whole numbers up to rounding noise (0.29 * 100 = 28.999999999999996): still that many molecules
        state = [float(np.nextafter(v, 0.0)) if v > 0 else v for v in state]
        res.label("amounts_with_rounding_noise")
    bin_species = [s for s in names if modes[s] == "binomial" and state[names.index(s)] > 0]
    res.label("splitter:" + case["cls"], "volume_mode:" + vmode, "noise:" + ("0" if not case["noise"] else ">0"))
    if not bin_species:
        res.skip = "no_binomial_species"
        return res
    fixed_p = (case["cls"] == "perfbin") or vmode in ("perfect", "duplicate") or not case["noise"]

    def run(n, seed):
        py_seed_random(seed)
        aux = np.random.RandomState(seed % (2 ** 32))     # auxiliary uniforms of the randomized transform: part of the case
        mo = mother(state, V, t)
        D = {s: np.zeros(n) for s in bin_species}
        P = np.zeros(n)
        for j in range(n):
            d, e = vs.py_partition(mo)
            ds = np.asarray(d.py_get_state(), dtype=float)
            P[j] = float(d.py_get_volume()) / float(V) if vmode != "duplicate" else 1.0
            for s in bin_species:
                D[s][j] = ds[idx[s]]
        out = []
        for s in bin_species:
            nmol = int(round(state[names.index(s)]))
            if fixed_p and np.all(P == P[0]):
                pmf = sst.binom.pmf(np.arange(nmol + 1), nmol, float(P[0]))
                obs = np.bincount(D[s].astype(int), minlength=nmol + 1)[:nmol + 1]
                if D[s].max() > nmol:
                    out.append((f"binomial_counts:{s}", 0.0, {"impossible": True}))
                    continue
                pv, info = stats.chi2_pooled(obs, pmf, n)
                out.append((f"binomial_counts:{s}", pv, info))
            else:
                lo = sst.binom.cdf(D[s] - 1, nmol, P)
                hi = sst.binom.cdf(D[s], nmol, P)
                u = lo + aux.uniform(size=n) * (hi - lo)
                out.append((f"binomial_counts:{s}", stats.ks_uniform(u), {"mean_p": float(P.mean())}))
        if case["cls"] != "perfbin" and vmode == "binomial" and case["noise"]:
            # the volume fraction itself: uniform on [0.5 - noise*c, 0.5] (c = 1 general, 1/2 lineage splitter)
            width = case["noise"] * (1.0 if case["cls"] == "general" else 0.5)
            out.append(("volume_fraction_uniform", stats.ks_uniform((0.5 - P) / width), {}))
        return out

    n1 = case["n1"]
    rej, report = stats.two_stage(run, n1, case["seed"], case["seed"] + 977)
    for name, pv, info in rej:
        res.fail(("partition_distribution", case["cls"], name.split(":")[0], "fixed_p" if fixed_p else "noisy_p"),
                 test=name, pvalue=pv, info=info, report=report)
    res.nontrivial = True
    return res


# ---------------------------------------------------------------------------------------------------
# lineages
def growth_step(ls):
    """For rule-based noise-free growth: function V -> next V over one grid step (else None)."""
    if len(ls["growth"]) != 1 or ls["growth"][0]["kind"] != "rule":
        return None
    g = ls["growth"][0]
    if "noise" in g["params"]:
        return None
    dt = ls["grid"][1] - ls["grid"][0]
    P = ls["base"]["params"]

    def val(x):
        try:
            return float(x)              # a literal (also inside an equation string)
        except (TypeError, ValueError):
            return float(P[x])           # a named parameter
    if g["type"] == "linear":
        r = val(g["params"]["growth_rate"])
        return lambda V, t: V + r * dt
    if g["type"] == "multiplicative":
        r = val(g["params"]["growth_rate"])
        return lambda V, t: V + V * r * dt
    eq = g["params"]["equation"]
    if g["type"] == "ode":
        pname = eq.split("*")[0].split("+")[0].strip()
        r = val(pname)
        if "volume" in eq:
            return lambda V, t: V + r * V * dt
        return lambda V, t: V + r * dt
    if g["type"] == "assignment":
        pname = eq.split("+")[1].split("*")[0].strip()
        r = val(pname)
        return lambda V, t: 1 + r * t
    return None


def rule_targets(ls):
    return {rl["dest"] for rl in ls["base"].get("rules", [])}


def cell_invariants(res, ls, k, time, data, volume, where):
    """Per-row invariants of one cell.  Returns False after a failure."""
    grid = np.array(ls["grid"], dtype=float)
    names = ls["base"]["species"]
    col = {s: i for i, s in enumerate(names)}
    if len(time) == 0:
        res.fail(("empty_cell_record", where), cell=k)
        return False
    if data.shape[0] != len(time) or len(volume) != len(time):
        res.fail(("cell_arrays_inconsistent", where), cell=k, rows=int(data.shape[0]), times=len(time), volumes=len(volume))
        return False
    i0 = int(np.searchsorted(grid, time[0]))
    if i0 >= len(grid) or i0 + len(time) > len(grid) or not np.array_equal(grid[i0:i0 + len(time)], time):
        res.fail(("time_axis_not_a_slice_of_the_grid", where), cell=k, first=float(time[0]), n=len(time))
        return False
    if not np.all(volume > 0):
        j = int(np.argmax(~(volume > 0)))
        res.fail(("row_with_nonpositive_volume", where), cell=k, row=j, time=float(time[j]), volume=float(volume[j]),
                 state=[float(x) for x in data[j]], rows=len(time))
        return False
    if np.any(data != np.round(data)) or np.any(data[:, [col[s] for s in names if s not in rule_targets(ls)]] < 0):
        res.fail(("noninteger_or_negative_count", where), cell=k)
        return False
    tot = data[:, col["A"]] + data[:, col["B"]]
    if np.any(tot != tot[0]):
        j = int(np.argmax(tot != tot[0]))
        res.fail(("per_cell_conserved_total_broken", where), cell=k, row=j, time=float(time[j]), total_first=float(tot[0]),
                 total_row=float(tot[j]), state=[float(x) for x in data[j]])
        return False
    if ls["shape"] == "none" and not any(x["kind"] == "event" for x in ls["growth"] + ls["division"] + ls["death"]):
        keep = [col[s] for s in names if s not in rule_targets(ls)]
        if np.any(data[:, keep] != data[0, keep]):
            j = int(np.argmax(np.any(data[:, keep] != data[0, keep], axis=1)))
            res.fail(("state_changes_without_any_reaction", where), cell=k, row=j, first=[float(x) for x in data[0]],
                     got=[float(x) for x in data[j]])
            return False
    step = growth_step(ls)
    if step is not None and len(time) >= 2:
        # The simulator records a row before it applies the volume step of the same grid time, so the reported volume
        # lags the law by one step: rows 0 and 1 of a cell both show its initial volume, from then on every row is the
        # growth step of the previous one (an assignment law is evaluated at the previous or the current grid time).
        dt_ = ls["grid"][1] - ls["grid"][0]
        exact_grid = (dt_ * 1024 == int(dt_ * 1024)) and all(ls["grid"][i] == i * dt_ for i in range(len(ls["grid"])))
        for j in range(len(time) - 1):
            cands = [step(float(volume[j]), float(time[j + 1])), step(float(volume[j]), float(time[j]))]
            if j == 0:
                cands.append(float(volume[0]))
            if not exact_grid:
                # the simulator's own clock (t += dt) drifts by an ulp against a grid such as 0.1 * i, so a row may be
                # recorded one volume step early or late: between two rows the law may have been applied 0, 1 or 2 times
                cands.append(float(volume[j]))
                cands.append(step(step(float(volume[j]), float(time[j])), float(time[j + 1])))
                cands.append(step(step(float(volume[j]), float(time[j + 1])), float(time[j + 1]) + dt_))
            if not any(abs(volume[j + 1] - exp) <= 1e-9 * max(1.0, abs(exp)) for exp in cands):
                res.fail(("volume_row_does_not_follow_growth_law", where, ls["growth"][0]["type"]), cell=k, row=j + 1,
                         time=float(time[j + 1]), got=float(volume[j + 1]), expected=cands, previous=float(volume[j]),
                         rows=len(time))
                return False
    return True


def mechanism_possible(ls, di, age, V_first, V_last):
    """Could division mechanism di have fired for a mother of this age and volume?  (Events and noisy thresholds always
    could; a noise-free rule only once its threshold is reached.)"""
    d = ls["division"][di]
    if d["kind"] == "event" or "noise" in d["params"]:
        return True
    P = ls["base"]["params"]

    def val(x):
        try:
            return float(x)              # a literal (also inside an equation string)
        except (TypeError, ValueError):
            return float(P[x])           # a named parameter
    eps = 1e-7
    if d["type"] == "time":
        return age >= val(d["params"]["threshold"]) - eps
    if d["type"] == "volume":
        return V_last >= val(d["params"]["threshold"]) - eps
    if d["type"] == "deltaV":
        return V_last - V_first >= val(d["params"]["threshold"]) - eps
    if d["type"] == "general":
        pname = d["params"]["equation"].split("-")[1].strip()
        return V_last > val(pname) - eps
    return True


def daughters_ok(ls, P, Vp, D1, V1, D2, V2, age=None, V_first=None):
    """Is (D1, D2) a valid partition of the mother's last row under one of the division mechanisms that can have fired
    (judged from the mother's age and volume)?"""
    names = ls["base"]["species"]
    skip = rule_targets(ls)
    reasons = []
    for di in range(len(ls["division"])):
        if age is not None and not mechanism_possible(ls, di, age, V_first, Vp):
            reasons.append(f"mechanism {di} ({ls['division'][di]['type']}) cannot have fired: age {age}, volume {V_first} -> {Vp}")
            continue
        modes, vmode = lingen.species_modes(ls, di)
        ok = True
        if vmode == "duplicate":
            if V1 != Vp or V2 != Vp:
                ok = False
                reasons.append(f"mechanism {di}: volume not duplicated")
        elif abs(V1 + V2 - Vp) > 1e-9 * Vp:
            ok = False
            reasons.append(f"mechanism {di}: volumes {V1}+{V2} != {Vp}")
        p = V1 / Vp if Vp else float("nan")
        for i, s in enumerate(names):
            if s in skip or not ok:
                continue
            m = modes[s]
            if m == "duplicate":
                if D1[i] != P[i] or D2[i] != P[i]:
                    ok = False
                    reasons.append(f"mechanism {di}: {s} not duplicated ({D1[i]},{D2[i]} from {P[i]})")
            else:
                if D1[i] + D2[i] != P[i]:
                    ok = False
                    reasons.append(f"mechanism {di}: {s} not conserved ({D1[i]}+{D2[i]} != {P[i]})")
                elif m == "perfect" and not abs(D1[i] - p * P[i]) < 1 + 1e-9:
                    ok = False
                    reasons.append(f"mechanism {di}: {s} perfect split off ({D1[i]} of {P[i]}, p={p})")
        if ok:
            return True, []
    return False, reasons


def check_lineage(case):
    res = R()
    ls = case["lspec"]
    with specmod.quiet():
        M = lingen.to_lineage_model(ls)
    simulator = None
    try:
        if case.get("reused_simulator"):
            # one simulator object runs a lineage of the same model first (another seed): the lineage it returns
            # afterwards is a new one, made of this run's cells only
            from bioscrape.lineage import LineageSSASimulator
            simulator = LineageSSASimulator()
            lingen.simulate_lineage(M, ls["grid"], case["seed"] + 17, ls["cells"], simulator=simulator)
            res.label("simulator_object_used_for_a_lineage_before")
        recs, L = lingen.simulate_lineage(M, ls["grid"], case["seed"], ls["cells"], simulator=simulator)
    except ValueError as e:
        if "dividing too fast" in str(e):
            res.skip = "cells_divide_faster_than_grid"
            return res
        raise
    grid = ls["grid"]
    n = len(recs)
    if n < ls["cells"]:
        res.fail(("lineage_lost_initial_cells",), got=n, expected=ls["cells"])
        return res
    zero_prop_seen = False
    for k, r in enumerate(recs):
        if not cell_invariants(res, ls, k, r["time"], r["data"], r["volume"], "lineage"):
            return res
    for k, r in enumerate(recs):
        p, (d1, d2) = r["parent"], r["daughters"]
        if p == -2 or d1 == -2 or d2 == -2:
            res.fail(("link_points_outside_the_lineage",), cell=k)
            return res
        if (d1 is None) != (d2 is None):
            res.fail(("single_daughter",), cell=k)
            return res
        if p is not None and k not in recs[p]["daughters"]:
            res.fail(("links_not_mutual", "parent_does_not_list_daughter"), cell=k, parent=p)
            return res
        for d in (d1, d2):
            if d is not None and recs[d]["parent"] != k:
                res.fail(("links_not_mutual", "daughter_does_not_name_parent"), cell=k, daughter=d)
                return res
        if d1 is not None:
            if d1 == d2:
                res.fail(("daughters_identical_object",), cell=k)
                return res
            a, b = recs[d1], recs[d2]
            for dd in (a, b):
                if dd["time"][0] != r["time"][-1]:
                    res.fail(("daughter_does_not_start_at_division_time",), cell=k, mother_last=float(r["time"][-1]),
                             daughter_first=float(dd["time"][0]))
                    return res
            ok, reasons = daughters_ok(ls, r["data"][-1], float(r["volume"][-1]), a["data"][0], float(a["volume"][0]),
                                       b["data"][0], float(b["volume"][0]), age=float(r["time"][-1] - r["time"][0]),
                                       V_first=float(r["volume"][0]))
            if not ok:
                res.fail(("daughters_not_a_partition_of_mother",), cell=k, mother=[float(x) for x in r["data"][-1]],
                         mother_volume=float(r["volume"][-1]), d1=[float(x) for x in a["data"][0]],
                         d1_volume=float(a["volume"][0]), d2=[float(x) for x in b["data"][0]],
                         d2_volume=float(b["volume"][0]), reasons=reasons[:4])
                return res
        elif not ls["death"] and r["time"][-1] != grid[-1]:
            res.fail(("cell_record_stops_early_without_division_or_death",), cell=k, last=float(r["time"][-1]),
                     final=grid[-1], rows=len(r["time"]))
            return res
        if ls["shape"] == "none" or (ls["shape"] == "a_to_b_only" and r["data"][0, 0] == 0) or \
                (ls["shape"] == "a_to_b_only" and len(r["time"]) > 2 and r["data"][-2, 0] == 0):
            zero_prop_seen = True
    res.label("schnitzes:" + ("1" if n == 1 else "2-3" if n <= 3 else "4-15" if n <= 15 else "16+"))
    res.label("growth:" + ls["growth_kind"], "shape:" + ls["shape"])
    for d in ls["division"]:
        res.label("division:" + d["kind"] + ":" + d["type"])
    for d in ls["death"]:
        res.label("death:" + d["kind"] + ":" + d["type"])
    if zero_prop_seen:
        res.label("cell_with_exhausted_reactions")
    res.nontrivial = n >= 3 or zero_prop_seen
    return res


def check_single(case):
    from bioscrape.lineage import py_SimulateSingleCell
    from bioscrape.random import py_seed_random
    res = R()
    ls = case["lspec"]
    grid = np.array(ls["grid"], dtype=float)
    with specmod.quiet():
        M = lingen.to_lineage_model(ls)
        py_seed_random(case["seed"])
        r = py_SimulateSingleCell(grid, Model=M, return_dataframes=False, safe=bool(case.get("safe")))
    time = np.array(r.py_get_timepoints(), dtype=float)
    data = np.array(r.py_get_result(), dtype=float)
    vol = np.array(r.py_get_volume(), dtype=float)
    if not cell_invariants(res, ls, 0, time, data, vol, "single_cell"):
        return res
    divided, dead = int(r.py_get_divided()), int(r.py_get_dead())
    names = ls["base"]["species"]
    x0 = [ls["base"]["x0"].get(s, 0.0) for s in names]
    keep = [i for i, s in enumerate(names) if s not in rule_targets(ls)]
    if time[0] != grid[0] or any(data[0, i] != x0[i] for i in keep):
        res.fail(("first_row_is_not_the_initial_condition", "single_cell"), got=[float(x) for x in data[0]], expected=x0)
        return res
    truncated = len(time) < len(grid)
    if truncated and divided < 0 and dead < 0:
        res.fail(("truncated_without_division_or_death_flag", "single_cell"), rows=len(time), grid=len(grid))
    if not truncated and (divided >= 0 or dead >= 0) and time[-1] != grid[-1]:
        res.fail(("flag_without_truncation", "single_cell"), divided=divided, dead=dead)
    if divided >= 0 and not ls["division"]:
        res.fail(("divided_without_division_mechanism", "single_cell"), divided=divided)
    if dead >= 0 and not ls["death"]:
        res.fail(("dead_without_death_mechanism", "single_cell"), dead=dead, rows=len(time))
    nd = len(ls["division"])
    if divided >= nd and nd:
        res.fail(("division_index_out_of_range", "single_cell"), divided=divided, mechanisms=nd)
    res.label("single:" + ("divided" if divided >= 0 else "dead" if dead >= 0 else "full"), "growth:" + ls["growth_kind"],
              "shape:" + ls["shape"])
    exhausted = ls["shape"] == "none" or (ls["shape"] == "a_to_b_only" and len(time) > 2 and data[-2, 0] == 0)
    if exhausted:
        res.label("cell_with_exhausted_reactions")
    res.nontrivial = exhausted or divided >= 0 or dead >= 0
    return res


def check(case):
    return {"splitter": check_splitter, "splitter_stat": check_splitter_stat, "lineage": check_lineage,
            "single": check_single}[case["kind"]](case)


# ---------------------------------------------------------------------------------------------------
@st.composite
def splitter_cases(draw, stat=False):
    cls = draw(st.sampled_from(["perfbin", "general", "lineage", "lineage"]))
    names = draw(gen.species_names(1, 4))
    case = {"kind": "splitter_stat" if stat else "splitter", "cls": cls, "species": names,
            "seed": draw(st.integers(1, 2 ** 31))}
    mode_pool = ["binomial", "binomial", "perfect", "duplicate"]
    if cls == "general":
        case["modes"] = {s: draw(st.sampled_from(mode_pool)) for s in names}
        case["noise"] = draw(st.sampled_from([0.0, 0.05, 0.2, 0.4]))
        case["list_binomial"] = draw(st.booleans())
        case["reconfigure"] = draw(st.booleans())
    elif cls == "lineage":
        opt = {"default": draw(st.sampled_from(["binomial", "perfect", "duplicate"])),
               "volume": draw(st.sampled_from(["binomial", "binomial", "perfect", "duplicate"]))}
        for s in names:
            if draw(st.integers(0, 3)) > 0:
                opt[s] = draw(st.sampled_from(mode_pool))
        case["options"] = opt
        case["noise"] = draw(st.sampled_from([0.0, 0.1, 0.4, 0.8]))
    else:
        case["noise"] = 0.0

    def mother(maxn):
        state = [float(draw(st.one_of(st.integers(0, 3), st.integers(0, maxn)))) for _ in names]
        V = draw(st.sampled_from([0.5, 1.0, 2.0, 3.7, 8.0]))
        return [state, V, draw(st.sampled_from([0.0, 1.25, 10.0]))]

    if stat:
        m = mother(60)
        if all(v == 0 for v in m[0]):
            m[0][0] = float(draw(st.integers(1, 60)))
        case["mother"] = m
    else:
        case["mothers"] = [mother(200) for _ in range(draw(st.integers(1, 4)))]
        case["reps"] = draw(st.integers(1, 12))
    return case


@st.composite
def lineage_cases(draw, kind):
    ls = draw(lingen.lineage_specs())
    case = {"kind": kind, "lspec": ls, "seed": draw(st.integers(1, 2 ** 40))}
    if kind == "single":
        case["safe"] = draw(st.booleans())
    else:
        case["reused_simulator"] = draw(st.integers(0, 3)) == 0
    return case


def search(ctx):
    scale = ctx.job.get("scale", 1)
    t = ctx.thorough
    ctx.run_hypothesis("splitter", splitter_cases(), check, ctx.share((60000 if t else 4000) * scale))
    ctx.run_hypothesis("lineage", lineage_cases("lineage"), check, ctx.share((60000 if t else 3000) * scale))
    ctx.run_hypothesis("single", lineage_cases("single"), check, ctx.share((40000 if t else 2000) * scale))
    n1 = 40000 if t else 10000

    @st.composite
    def stat_cases(draw):
        c = draw(splitter_cases(stat=True))
        c["n1"] = n1
        c["float_noise"] = draw(st.integers(0, 3)) == 0
        return c
    ctx.run_hypothesis("splitter_stat", stat_cases(), check, ctx.share((6000 if t else 480) * scale), shrink=False)
