"""C10 - delayed reactions deliver their delayed part exactly once, after the delay."""
import math

import numpy as np
import scipy.stats as st_
from hypothesis import strategies as st

from vf import cme as cmemod, distcheck, gen, ref, spec as specmod, stats
from vf.core import R
from vf.props.c06 import instrument, BIG


def _delay_value(sp, d, key):
    return ref.pval(sp, d["pd"][key])


def _run_delay(sp, tp, seed, how):
    from bioscrape.simulator import (ModelCSimInterface, SafeModelCSimInterface, DelaySSASimulator, ArrayDelayQueue,
                                     py_simulate_model)
    from bioscrape.random import py_seed_random
    with specmod.quiet():
        M = specmod.to_model(sp)
    dt = float(tp[1] - tp[0])
    order = [M.get_species2index()[s] for s in sp["species"]]
    py_seed_random(seed)
    with specmod.quiet():
        if how == "model_api":
            r = py_simulate_model(tp, Model=M, stochastic=True, delay=True, return_dataframe=False)
        elif how == "continued":
            # a run in two pieces: the second piece starts from the first one's final state, time and delay queue
            I = ModelCSimInterface(M)
            I.py_set_dt(dt)
            m = max(2, len(tp) // 2)
            q = ArrayDelayQueue.setup_queue(len(sp["reactions"]), len(tp), dt)
            r1 = DelaySSASimulator().py_delay_simulate(I, q, tp[:m + 1].copy())
            x1 = np.asarray(r1.py_get_result(), dtype=float)
            I.py_set_initial_state(x1[-1].copy())
            I.py_set_initial_time(float(tp[m]))
            r = DelaySSASimulator().py_delay_simulate(I, r1.py_get_delay_queue(), tp[m:].copy())
            x2 = np.asarray(r.py_get_result(), dtype=float)
            x = np.vstack([x1, x2[1:]])[:, order]
            q = r.py_get_delay_queue()
            pending = np.zeros(len(sp["reactions"]))
            buf = np.zeros(len(sp["reactions"]))
            times = []
            for _ in range(len(tp) + 2):
                times.append(q.py_get_next_queue_time())
                q.py_get_next_reactions(buf)
                pending += buf
                q.py_advance_time()
            return x, pending, times
        else:
            I = SafeModelCSimInterface(M) if how == "safe_simulator" else ModelCSimInterface(M)
            I.py_set_dt(dt)
            q = ArrayDelayQueue.setup_queue(len(sp["reactions"]), len(tp), dt)
            r = DelaySSASimulator().py_delay_simulate(I, q, tp)
    x = np.asarray(r.py_get_result(), dtype=float)[:, order]
    q = r.py_get_delay_queue()
    pending = np.zeros(len(sp["reactions"]))
    buf = np.zeros(len(sp["reactions"]))
    times = []
    for _ in range(len(tp) + 2):
        times.append(q.py_get_next_queue_time())
        q.py_get_next_reactions(buf)
        pending += buf
        q.py_advance_time()
    return x, pending, times


def check_path(case):
    res = R()
    base = case["spec"]
    sp = instrument(base, consumed_counters=True)
    tp = np.array(case["grid"], dtype=float)
    dt = float(tp[1] - tp[0])
    x, pending, qtimes = _run_delay(sp, tp, case["seed"], case["how"])
    names = sp["species"]
    col = {s: i for i, s in enumerate(names)}
    nr = len(sp["reactions"])
    S, Sd = ref.stoich(sp)
    if np.any(x != np.round(x)):
        res.fail(("non_integer_count",), detail="non-integer state")
        return res
    N = np.stack([x[:, col[f"N{j}"]] for j in range(nr)], axis=1)
    D = np.zeros_like(N)
    delayed = [j for j in range(nr) if f"D{j}" in col]
    for j in delayed:
        D[:, j] = x[:, col[f"D{j}"]]
    for j in sp.get("consumed_counters", []):
        D[:, j] = BIG - x[:, col[f"D{j}"]]          # a delayed part without products: its counter counts down
        res.label("delayed_part_consumes_only")
    # (i) accounting: final state + still-queued deliveries account for every firing
    for j in range(nr):
        if j in delayed:
            if D[-1, j] + pending[j] != N[-1, j]:
                res.fail(("accounting_lost_or_duplicated", base["reactions"][j]["delay"]["type"]), reaction=j,
                         fired=float(N[-1, j]), delivered=float(D[-1, j]), queued=float(pending[j]))
                return res
        elif pending[j] != 0:
            res.fail(("queued_without_delay",), reaction=j, queued=float(pending[j]))
            return res
    for s in names:
        exp = sp["x0"][s] + sum(N[-1, j] * S[s][j] + D[-1, j] * Sd[s][j] for j in range(nr))
        if x[-1, col[s]] != exp:
            res.fail(("accounting_state",), species=s, got=float(x[-1, col[s]]), expected=float(exp))
            return res
    # every row: state = x0 + firings x immediate + deliveries x delayed; deliveries never exceed firings
    for s in names:
        exp = sp["x0"][s] + sum(N[:, j] * S[s][j] + D[:, j] * Sd[s][j] for j in range(nr))
        if np.any(x[:, col[s]] != exp):
            k = int(np.argmax(x[:, col[s]] != exp))
            res.fail(("row_accounting",), species=s, row=k, got=float(x[k, col[s]]), expected=float(exp[k]))
            return res
    if np.any(D > N) or np.any(np.diff(D, axis=0) < 0):
        res.fail(("delivered_more_than_fired",), detail="D > N or D decreasing")
        return res
    # (ii) timing
    late_delivery = False
    for j in delayed:
        d = base["reactions"][j]["delay"]
        if d["type"] == "fixed":
            tau = _delay_value(base, d, "delay")
            slack = 3.0 if case["how"] == "continued" else 1.5      # the hand-over between two pieces may cost a slot
            for k in range(len(tp)):
                lo_t = tp[k] - tau - slack * dt
                hi_t = tp[k] - tau + slack * dt
                lo_rows = np.nonzero(tp <= lo_t)[0]
                hi_rows = np.nonzero(tp >= hi_t)[0]
                lo = N[lo_rows[-1], j] if len(lo_rows) else 0.0
                hi = N[hi_rows[0], j] if len(hi_rows) else N[-1, j]
                if not (lo <= D[k, j] <= hi):
                    res.fail(("delivery_time_fixed_delay", "too_late" if D[k, j] < lo else "too_early"), reaction=j,
                             row=k, time=float(tp[k]), delay=tau, dt=dt, delivered=float(D[k, j]), lower=float(lo),
                             upper=float(hi))
                    return res
            if tau > tp[-1] + dt and D[-1, j] != 0:
                res.fail(("delivered_before_delay_elapsed",), reaction=j, delay=tau, horizon=float(tp[-1]))
                return res
            if tau > 1.5 * dt and N[-1, j] > 0:
                late_delivery = True
        elif d["type"] == "gaussian" and _delay_value(base, d, "mean") <= -8 * _delay_value(base, d, "std"):
            # a negative draw acts as zero delay: delivered with the firing, on every row
            res.label("gaussian_always_negative")
            if np.any(D[:, j] != N[:, j]):
                k = int(np.argmax(D[:, j] != N[:, j]))
                res.fail(("negative_delay_not_immediate",), reaction=j, row=k, fired=float(N[k, j]), delivered=float(D[k, j]))
                return res
        else:
            if N[-1, j] > 0:
                late_delivery = True
    fired = int(N[-1, delayed].sum()) if delayed else 0
    res.label("how:" + case["how"], *["delay:" + base["reactions"][j]["delay"]["type"] for j in delayed],
              "fired>=3" if fired >= 3 else "fired<3")
    if pending.sum() > 0:
        res.label("pending_at_end")
    res.nontrivial = fired >= 3 and late_delivery
    return res


def check_draws(case):
    """(iii) Delay.py_get_delay against the named distribution (KS, two-stage)."""
    from bioscrape.random import py_seed_random
    res = R()
    sp = case["spec"]
    with specmod.quiet():
        M = specmod.to_model(sp)
    dobj = M.get_delays()[0]
    d = sp["reactions"][0]["delay"]
    state = specmod.state_vector(M, sp["x0"])
    params = np.array(M.get_parameter_values(), dtype=float)
    if d["type"] == "gaussian":
        dist = st_.norm(_delay_value(sp, d, "mean"), _delay_value(sp, d, "std"))
    elif d["type"] == "gamma":
        dist = st_.gamma(a=_delay_value(sp, d, "k"), scale=_delay_value(sp, d, "theta"))
    else:
        tau = _delay_value(sp, d, "delay")
        py_seed_random(case["seed"])
        vals = [dobj.py_get_delay(state, params) for _ in range(20)]
        if any(v != tau for v in vals):
            res.fail(("fixed_delay_value",), got=vals[:3], expected=tau)
        res.nontrivial = True
        return res

    other = None
    if len(sp["reactions"]) > 1:
        # a second delayed reaction with its own distribution draws from the same generator in between (as happens in
        # any simulation with two delayed reactions): each stream must still have its own law
        other = M.get_delays()[1]
        d2 = sp["reactions"][1]["delay"]
        dist2 = st_.norm(_delay_value(sp, d2, "mean"), _delay_value(sp, d2, "std")) if d2["type"] == "gaussian" else \
            st_.gamma(a=_delay_value(sp, d2, "k"), scale=_delay_value(sp, d2, "theta"))
        res.label("interleaved_with:" + d2["type"])

    def run(n, seed):
        py_seed_random(seed)
        if other is None:
            xs = np.array([dobj.py_get_delay(state, params) for _ in range(n)])
            ys = None
        else:
            xs, ys = np.empty(n), np.empty(n)
            for i in range(n):
                xs[i] = dobj.py_get_delay(state, params)
                ys[i] = other.py_get_delay(state, params)
        out = [("ks", stats.ks_against(xs, dist.cdf), {"mean": float(xs.mean()), "std": float(xs.std()),
                                                         "expected_mean": float(dist.mean()), "expected_std": float(dist.std())})]
        if ys is not None:
            out.append(("ks_second_stream", stats.ks_against(ys, dist2.cdf),
                        {"mean": float(ys.mean()), "std": float(ys.std()), "expected_mean": float(dist2.mean()),
                         "expected_std": float(dist2.std())}))
        return out
    rej, report = stats.two_stage(run, case["n1"], case["seed"], case["seed"] + 15485863)
    for name, p, info in rej:
        res.fail(("delay_distribution", d["type"]) + (("interleaved",) if other is not None else ()), test=name, pvalue=p,
                 info=info, report=report, params=d["pd"])
    res.label("draws:" + d["type"])
    res.nontrivial = True
    return res


def check_dist(case):
    """(iv) all delays zero on the delay simulator, (v) delay-unaware simulators on a delay model: CME of the net network."""
    from bioscrape.simulator import (ModelCSimInterface, DelaySSASimulator, SSASimulator, VolumeSSASimulator,
                                     ArrayDelayQueue)
    from bioscrape.types import Volume
    from bioscrape.random import py_seed_random
    res = R()
    sp, grid, sim = case["spec"], case["grid"], case["sim"]
    vol = case.get("vol", 1.0)
    try:
        cme = distcheck.build_cme(sp, "stochvol" if sim == "volume" else "stoch", vol)
    except cmemod.TooLarge:
        res.skip = "state space above cap"
        return res
    tp = np.array(grid, dtype=float)
    dt = float(tp[1] - tp[0])
    with specmod.quiet():
        M = specmod.to_model(sp)
        I = ModelCSimInterface(M)
    I.py_set_dt(dt)
    order = [M.get_species2index()[s] for s in sp["species"]]

    def simulate(n, seed):
        py_seed_random(seed)
        out = np.empty((n, len(tp), len(order)))
        with specmod.quiet():
            for i in range(n):
                if sim == "delay_zero":
                    q = ArrayDelayQueue.setup_queue(len(sp["reactions"]), len(tp), dt)
                    out[i] = DelaySSASimulator().py_delay_simulate(I, q, tp).py_get_result()[:, order]
                elif sim == "ssa":
                    out[i] = SSASimulator().py_simulate(I, tp).py_get_result()[:, order]
                else:
                    v = Volume()
                    v.py_set_volume(vol)
                    out[i] = VolumeSSASimulator().py_volume_simulate(I, v, tp).py_get_result()[:, order]
        return out
    rej, report = distcheck.compare(cme, grid, simulate, case["n1"], case["seed"], case["seed"] + 32452843)
    for name, p, info in rej:
        kind = "impossible_state" if info.get("impossible") else ("marginal" if name.startswith("marginal") else "joint")
        res.fail(("net_network_distribution", sim, kind), test=name, pvalue=p, info=info, report=report)
        break
    res.label("dist:" + sim)
    res.nontrivial = distcheck.spread(cme, grid) >= 2
    return res


def check(case):
    return {"path": check_path, "draws": check_draws, "dist": check_dist}[case["kind"]](case)


# ---------------------------------------------------------------------------------------------------
@st.composite
def delay_block(draw, b, species, dt, horizon, zero=False, products=None):
    typ = draw(st.sampled_from(["fixed", "fixed", "gaussian", "gamma"]))
    if zero:
        return {"type": "fixed", "r": [], "p": products or [], "pd": {"delay": b.value_entry(st.just(0.0))}}
    regime = draw(st.sampled_from(["tiny", "step", "mid", "mid", "beyond"]))
    tau = {"tiny": 0.05 * dt, "step": dt * draw(st.sampled_from([0.3, 0.75, 1.0, 1.25, 2.0])),
           "mid": horizon * draw(st.sampled_from([0.1, 0.25, 0.5])), "beyond": horizon * draw(st.sampled_from([1.2, 3.0]))}[regime]
    tau = float(f"{tau:.6g}")
    if typ == "fixed":
        pd = {"delay": b.value_entry(st.just(tau))}
    elif typ == "gaussian":
        if draw(st.integers(0, 5)) == 0:
            pd = {"mean": b.value_entry(st.just(-5.0)), "std": b.value_entry(st.just(0.1))}
        else:
            pd = {"mean": b.value_entry(st.just(tau)), "std": b.value_entry(st.just(float(f"{tau * draw(st.sampled_from([0.05, 0.3, 1.0])):.6g}")))}
    else:
        k = draw(st.sampled_from([1.0, 2.0, 3.0, 1.5, 4.5]))
        pd = {"k": b.value_entry(st.just(k)), "theta": b.value_entry(st.just(float(f"{tau / k:.6g}")))}
    return {"type": typ, "r": [], "p": products or [], "pd": pd}


@st.composite
def path_cases(draw):
    """Bounded by construction: every reaction preserves or lowers the molecule count (delayed products included),
    except zero-order inflow whose expected total over the horizon is <= 20.  Delayed *reactants* (consumption the rate
    law does not see) are only generated together with the safe interface, which never lets a propensity go negative."""
    species = draw(gen.species_names(1, 3))
    b = gen.Builder(draw, species)
    dt = draw(st.sampled_from([0.0625, 0.125, 0.25, 0.5, 1.0]))
    n = draw(st.integers(5, 60))
    horizon = dt * (n - 1)
    any_delayed_reactant = False
    for _ in range(draw(st.integers(1, 3))):
        a, c, e = draw(st.sampled_from(species)), draw(st.sampled_from(species)), draw(st.sampled_from(species))
        shape = draw(st.sampled_from(["conv", "cat", "inflow", "dimer"]))
        k = b.value_entry(gen.logfl(0.5 / horizon, 20.0 / horizon))
        if shape == "conv":
            rx = gen.massaction(b, [a], [], k=k)
        elif shape == "cat":
            rx = gen.massaction(b, [a, e], [a], k=k)
        elif shape == "inflow":
            rx = gen.massaction(b, [], [], k=k)
        else:
            rx = gen.massaction(b, [a, a], [a], k=k)
        prods = [c]
        d = draw(delay_block(b, species, dt, horizon, products=prods))
        if draw(st.integers(0, 4)) == 0:
            d["r"] = [draw(st.sampled_from(species))]
            any_delayed_reactant = True
            if draw(st.booleans()):
                d["p"] = []                  # a delayed part that only consumes (a molecule with a lifetime)
        rx["delay"] = d
        b.reactions.append(rx)
    x0 = {s: float(draw(st.integers(1, 30))) for s in species}
    how = "safe_simulator" if any_delayed_reactant else draw(st.sampled_from(["simulator", "simulator", "model_api", "continued"]))
    return {"kind": "path", "spec": b.spec(x0), "grid": [i * dt for i in range(n)], "how": how,
            "seed": draw(st.integers(1, 2 ** 40))}


@st.composite
def draw_cases(draw, n1):
    b = gen.Builder(draw, ["A"])
    rx = gen.massaction(b, ["A"], [])
    typ = draw(st.sampled_from(["gaussian", "gamma", "fixed"]))
    if typ == "gaussian":
        pd = {"mean": b.value_entry(gen.fl(-5, 20)), "std": b.value_entry(gen.logfl(0.01, 10))}
    elif typ == "gamma":
        pd = {"k": b.value_entry(st.one_of(st.sampled_from([1.0, 2.0, 5.0]), gen.nice(1.0, 12.0))),
              "theta": b.value_entry(gen.logfl(0.01, 20))}
    else:
        pd = {"delay": b.value_entry(gen.logfl(0.01, 50))}
    rx["delay"] = {"type": typ, "r": [], "p": ["A"], "pd": pd}
    b.reactions.append(rx)
    if typ != "fixed" and draw(st.booleans()):
        rx2 = gen.massaction(b, ["A"], [])
        typ2 = draw(st.sampled_from(["gaussian", "gamma"]))
        if typ2 == "gaussian":
            pd2 = {"mean": b.value_entry(gen.fl(-5, 40)), "std": b.value_entry(gen.logfl(0.01, 10))}
        else:
            pd2 = {"k": b.value_entry(st.one_of(st.sampled_from([1.0, 2.0, 5.0]), gen.nice(1.0, 12.0))),
                   "theta": b.value_entry(gen.logfl(0.01, 20))}
        rx2["delay"] = {"type": typ2, "r": [], "p": ["A"], "pd": pd2}
        b.reactions.append(rx2)
    return {"kind": "draws", "spec": b.spec({"A": 3.0}), "n1": n1, "seed": draw(st.integers(1, 2 ** 40))}


@st.composite
def dist_cases(draw, n1):
    sim = draw(st.sampled_from(["delay_zero", "ssa", "volume"]))
    sp = draw(gen.finite_networks(types=("massaction", "general")))
    species = sp["species"]
    b = gen.Builder(draw, species)
    b.params = dict(sp["params"])
    dt = draw(st.sampled_from([0.125, 0.25, 0.5, 1.0]))
    n = draw(st.integers(2, 5))
    for rx in sp["reactions"]:
        if rx["p"] and draw(st.booleans()):
            moved = [p for p in rx["p"] if draw(st.booleans())] or [rx["p"][0]]
            for p in moved:
                rx["p"].remove(p)
            rx["delay"] = draw(delay_block(b, species, dt, dt * n, zero=(sim == "delay_zero"), products=moved))
    sp["params"] = dict(b.params)
    return {"kind": "dist", "spec": sp, "grid": [i * dt for i in range(n)], "sim": sim, "n1": n1,
            "vol": draw(st.sampled_from([1.0, 2.0, 0.5])), "seed": draw(st.integers(1, 2 ** 40))}


def search(ctx):
    scale = ctx.job.get("scale", 1)
    n1 = 40000 if ctx.thorough else 10000
    ctx.run_hypothesis("delay_paths", path_cases(), check, ctx.share((300000 if ctx.thorough else 30000) * scale))
    ctx.run_hypothesis("delay_draws", draw_cases(2 * n1), check, ctx.share((2000 if ctx.thorough else 200) * scale),
                       shrink=False)
    ctx.run_hypothesis("net_distribution", dist_cases(n1), check, ctx.share((5000 if ctx.thorough else 500) * scale),
                       shrink=False)
