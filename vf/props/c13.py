"""C13 - an imported plain SBML file has the semantics of the SBML document."""
import math
import os

import numpy as np
from hypothesis import strategies as st

from vf import gen, ref, sbmlmath, spec as specmod
from vf.core import R, HarnessError


def formula(tree):
    return ref.show(tree).replace("log(", "ln(")


def build_document(d):
    import libsbml
    doc = libsbml.SBMLDocument(3, 2)
    m = doc.createModel()
    m.setId("generated_plain_model")
    c = m.createCompartment()
    c.setId("cell"); c.setConstant(True); c.setSize(1.0); c.setSpatialDimensions(3)
    for s in d["species"]:
        sp = m.createSpecies()
        sp.setId(s["id"]); sp.setCompartment("cell"); sp.setConstant(False); sp.setBoundaryCondition(False)
        sp.setHasOnlySubstanceUnits(s.get("amount") is not None)
        if s.get("amount") is not None:
            sp.setInitialAmount(float(s["amount"]))
        elif s.get("conc") is not None:
            sp.setInitialConcentration(float(s["conc"]))
    ruled = {r["var"] for r in d["rules"]}
    for p in d["params"]:
        par = m.createParameter()
        par.setId(p["id"]); par.setValue(float(p["value"])); par.setConstant(p["id"] not in ruled)
    for r in d["reactions"]:
        rx = m.createReaction()
        rx.setId(r["id"]); rx.setReversible(False)
        for sid, n in r["reactants"]:
            sr = rx.createReactant(); sr.setSpecies(sid); sr.setStoichiometry(float(n)); sr.setConstant(True)
        for sid, n in r["products"]:
            sr = rx.createProduct(); sr.setSpecies(sid); sr.setStoichiometry(float(n)); sr.setConstant(True)
        for sid in r["modifiers"]:
            mr = rx.createModifier(); mr.setSpecies(sid)
        kl = rx.createKineticLaw()
        ast = libsbml.parseL3Formula(formula(r["tree"]))
        if ast is None:
            raise HarnessError("libsbml cannot parse generated formula " + formula(r["tree"]))
        kl.setMath(ast)
        for lid, val in r["locals"].items():
            lp = kl.createLocalParameter(); lp.setId(lid); lp.setValue(float(val))
    for i, rl in enumerate(d["rules"]):
        rule = m.createAssignmentRule() if rl["kind"] == "assignment" else m.createRateRule()
        rule.setVariable(rl["var"])
        ast = libsbml.parseL3Formula(formula(rl["tree"]))
        if ast is None:
            raise HarnessError("libsbml cannot parse generated formula " + formula(rl["tree"]))
        rule.setMath(ast)
    return doc


def reference(d, state, params):
    """(post-assignment state, post-assignment params, derivative by species id) by SBML semantics."""
    st_ = dict(state)
    pr = dict(params)
    for rl in d["rules"]:
        if rl["kind"] == "assignment":
            env = dict(pr); env.update(st_)
            v = ref.eval_tree(rl["tree"], env)
            if rl["var"] in st_:
                st_[rl["var"]] = v
            else:
                pr[rl["var"]] = v
    deriv = {s: 0.0 for s in st_}
    for r in d["reactions"]:
        env = dict(pr); env.update(st_); env.update(r["locals"])
        v = ref.eval_tree(r["tree"], env)
        # net stoichiometry first (integers, exact): a species on both sides of a fast reaction must not leave the
        # rounding error of (+n v - n v) in the reference value
        net = {}
        for sid, n in r["reactants"]:
            net[sid] = net.get(sid, 0) - n
        for sid, n in r["products"]:
            net[sid] = net.get(sid, 0) + n
        for sid, n in net.items():
            deriv[sid] += n * v
    for rl in d["rules"]:
        if rl["kind"] == "rate":
            env = dict(pr); env.update(st_)
            deriv[rl["var"]] += ref.eval_tree(rl["tree"], env)
    return st_, pr, deriv


def check(case):
    import libsbml
    from bioscrape.types import Model
    from bioscrape.simulator import ModelCSimInterface
    res = R()
    d = case["doc"]
    if case["kind"] == "both_attrs":
        return check_both(case)
    for st_ in case["states"]:
        try:
            reference(d, st_, {p["id"]: p["value"] for p in d["params"]})
        except ref.Undefined:
            res.skip = "a formula of the document is undefined at a sampled state"
            return res
    doc = build_document(d)
    if doc.getNumErrors(libsbml.LIBSBML_SEV_ERROR) > 0:
        raise HarnessError("generated document has errors: " + doc.getErrorLog().toString()[:500])
    path = os.path.abspath(f"c13_{os.getpid()}.xml")
    libsbml.writeSBMLToFile(doc, path)
    try:
        chk = libsbml.readSBML(path)
        if chk.getNumErrors() > 0:
            raise HarnessError("generated file does not read back cleanly: " + chk.getErrorLog().toString()[:800])
        with specmod.quiet():
            M = Model(sbml_filename=path, sbml_warnings=False)
    finally:
        if os.path.exists(path):
            os.remove(path)
    sids = [s["id"] for s in d["species"]]
    # initial values
    sd = M.get_species_dictionary()
    for s in d["species"]:
        exp = s["amount"] if s.get("amount") is not None else (s["conc"] if s.get("conc") is not None else 0.0)
        if s["id"] not in sd or sd[s["id"]] != exp:
            kind = "amount" if s.get("amount") is not None else ("concentration" if s.get("conc") is not None else "unset")
            res.fail(("initial_value", kind), species=s["id"], got=sd.get(s["id"]), expected=exp)
            return res
    pdict = M.get_parameter_dictionary()
    for p in d["params"]:
        if p["id"] not in pdict or pdict[p["id"]] != p["value"]:
            res.fail(("global_parameter_value", "clash_class" if case.get("clash_class") else "plain"), parameter=p["id"],
                     got=pdict.get(p["id"]), expected=p["value"], locals=[r["locals"] for r in d["reactions"]])
            return res
    # stoichiometry of the true reactions
    U = M.py_get_update_array()
    s2i = M.get_species2index()
    for j, r in enumerate(d["reactions"]):
        for sid in sids:
            exp = sum(n for x, n in r["products"] if x == sid) - sum(n for x, n in r["reactants"] if x == sid)
            if U.shape[1] <= j or U[s2i[sid], j] != exp:
                res.fail(("stoichiometry",), reaction=r["id"], species=sid, got=float(U[s2i[sid], j]) if U.shape[1] > j else None,
                         expected=exp)
                return res
    n_assign = sum(1 for rl in d["rules"] if rl["kind"] == "assignment")
    got_assign = sum(1 for r in M.get_rules() if r[0] == "assignment")
    order_tag = "".join("A" if rl["kind"] == "assignment" else "R" for rl in d["rules"])
    mixed = "mixed_rules" if ("A" in order_tag and "R" in order_tag) else "single_kind"
    if got_assign != n_assign:
        res.fail(("assignment_rule_count", mixed), got=got_assign, expected=n_assign, order=order_tag)
        return res
    for r_ in M.get_rules():
        # "every assignment rule becomes a repeated assignment"
        freq = r_[2] if len(r_) > 2 else "repeated"
        if r_[0] == "assignment" and freq not in ("repeated", "repeat"):
            res.fail(("assignment_rule_not_repeated",), rule=str(r_[1])[:200], frequency=str(freq))
            return res
    with specmod.quiet():
        I = ModelCSimInterface(M)
        I.py_prep_deterministic_simulation()
    params0 = {p["id"]: p["value"] for p in d["params"]}
    for k_state, st_ in enumerate(case["states"]):
        t_apply = 0.0 if k_state % 2 == 0 else 1.75       # the document has no explicit time dependence: any time will do
        try:
            est, epar, ederiv = reference(d, st_, params0)
        except ref.Undefined:
            res.label("state_outside_finite_domain")
            continue
        if not all(math.isfinite(v) for v in list(est.values()) + list(ederiv.values())):
            continue
        M.set_params(params0)
        x = np.zeros(len(s2i))
        for s, i in s2i.items():
            x[i] = st_.get(s, 0.0)
        I.py_apply_repeated_rules(x, t_apply, True)
        for sid in sids:
            if abs(x[s2i[sid]] - est[sid]) > 1e-9 * max(1.0, abs(est[sid])):
                what = "assignment_rule_value" if any(rl["var"] == sid and rl["kind"] == "assignment" for rl in d["rules"]) \
                    else "rule_changed_unassigned_species"
                res.fail((what, mixed), species=sid, got=float(x[s2i[sid]]), expected=est[sid], order=order_tag, state=st_)
                return res
        dx = np.zeros(len(x))
        I.py_calculate_deterministic_derivative(x, dx, t_apply)
        scale = 1.0 + max(abs(v) for v in ederiv.values())
        for sid in sids:
            if abs(dx[s2i[sid]] - ederiv[sid]) > 1e-9 * scale:
                is_rate_target = any(rl["var"] == sid and rl["kind"] == "rate" for rl in d["rules"])
                if case.get("nested_power"):
                    res.fail(("left_nested_power_misread",), species=sid, got=float(dx[s2i[sid]]), expected=ederiv[sid],
                             formula=formula(d["reactions"][0]["tree"]))
                    return res
                res.fail(("derivative", "rate_rule_target" if is_rate_target else "reaction_species", mixed,
                          "local_collision" if case.get("collision") else "no_collision"),
                         species=sid, got=float(dx[s2i[sid]]), expected=ederiv[sid], order=order_tag, state=st_)
                return res
    kinds = {("amount" if s.get("amount") else ("zero_amount" if s.get("amount") == 0 else ("conc" if s.get("conc") is not None else "unset")))
             for s in d["species"]}
    res.label("rules:" + (order_tag or "none"), *(["local_collision"] if case.get("collision") else []),
              *(["clash_class"] if case.get("clash_class") else []))
    res.nontrivial = bool(case.get("collision")) or mixed == "mixed_rules" or len(kinds) >= 2 or \
        any(n >= 2 for r in d["reactions"] for _, n in r["reactants"] + r["products"])
    return res


BOTH = """<?xml version="1.0" encoding="UTF-8"?>
<sbml xmlns="http://www.sbml.org/sbml/level3/version2/core" level="3" version="2">
  <model id="both_attrs">
    <listOfCompartments><compartment id="cell" spatialDimensions="3" size="1" constant="true"/></listOfCompartments>
    <listOfSpecies>
      <species id="A" compartment="cell" initialAmount="%s" initialConcentration="%s" hasOnlySubstanceUnits="false" boundaryCondition="false" constant="false"/>
    </listOfSpecies>
  </model>
</sbml>
"""


def check_both(case):
    from bioscrape.types import Model
    res = R()
    res.nontrivial = True
    path = os.path.abspath(f"c13b_{os.getpid()}.xml")
    with open(path, "w") as f:
        f.write(BOTH % (repr(case["amount"]), repr(case["conc"])))
    try:
        with specmod.quiet():
            M = Model(sbml_filename=path, sbml_warnings=False)
    except SyntaxError:
        res.label("both_attributes_rejected_by_reader")
        return res
    finally:
        os.remove(path)
    got = M.get_species_dictionary().get("A")
    exp = case["amount"] if case["amount"] != 0 else case["conc"]
    if got != exp:
        res.fail(("amount_precedence",), got=got, expected=exp, amount=case["amount"], conc=case["conc"])
    return res


# ---------------------------------------------------------------------------------------------------
def _kl_tree(draw, names, depth):
    if depth == 0 or draw(st.integers(0, 4)) == 0:
        if draw(st.integers(0, 3)) == 0:
            return gen.num(draw(st.sampled_from([0.5, 1.0, 2.0, 3.0, 0.25, 1.5e-1])))
        return gen.sym(draw(st.sampled_from(names)))
    op = draw(st.sampled_from(["add", "mul", "mul", "sub", "div", "pow", "exp", "log", "abs", "min", "max"]))
    sub = lambda: _kl_tree(draw, names, depth - 1)
    if op in ("add", "mul", "min", "max"):
        return [op, sub(), sub()]
    if op in ("sub", "div"):
        return [op, sub(), sub()]
    if op == "pow":
        base = sub()
        if base[0] == "pow":          # (a^b)^c is a separately labelled class (see nested_power_case)
            base = ["abs", base]
        return ["pow", base, gen.num(draw(st.sampled_from([2.0, 3.0, 0.5])))]
    if op == "exp":
        return ["exp", ["neg", ["abs", sub()]]]
    if op == "log":
        return ["log", ["add", gen.num(1), ["abs", sub()]]]
    return [op, sub()]


def _leading_minus(draw, tree, names):
    """One formula in five starts with a unary minus and goes on with further terms: -a*b + f, -a - f, -(a + f)."""
    k = draw(st.integers(0, 14))
    if k > 2:
        return tree
    a = ["mul", gen.sym(draw(st.sampled_from(names))), gen.sym(draw(st.sampled_from(names)))] if draw(st.booleans()) \
        else gen.sym(draw(st.sampled_from(names)))
    if k == 0:
        return ["add", ["neg", a], tree]
    if k == 1:
        return ["sub", ["neg", a], tree]
    return ["neg", ["add", a, tree]]


@st.composite
def documents(draw):
    sp_names = draw(gen.species_names(1, 5))
    n_rule_species = draw(st.integers(0, min(3, len(sp_names) - 1))) if len(sp_names) > 1 else 0
    rule_species = sp_names[len(sp_names) - n_rule_species:]
    rx_species = sp_names[:len(sp_names) - n_rule_species]
    pool = [p for p in gen.PARAM_POOL if p not in sp_names]
    # (a parameter value is any real number: one in six is negative)
    gparams = [{"id": pool[i], "value": draw(gen.nice(0.1, 5)) * (-1.0 if draw(st.integers(0, 5)) == 0 else 1.0)}
               for i in range(draw(st.integers(1, 4)))]
    gids = [p["id"] for p in gparams]
    rule_params = []
    if draw(st.booleans()):
        rp = {"id": "rp0", "value": draw(gen.nice(0.1, 5))}
        gparams.append(rp)
        rule_params.append("rp0")
    species = []
    for s in sp_names:
        k = draw(st.sampled_from(["amount", "amount", "zero_amount", "conc", "unset"]))
        species.append({"id": s, "amount": draw(gen.nice(0.5, 20)) if k == "amount" else (0.0 if k == "zero_amount" else None),
                        "conc": draw(gen.nice(0.5, 20)) if k == "conc" else None})
    collision = False
    clash_class = draw(st.integers(0, 9)) == 0
    reactions = []
    # a local parameter may carry the id of a global one - also of a global that a rule assigns - and even the same
    # declared value: it still binds only inside its own reaction
    local_pool = gids + ["kloc", "vloc"] + rule_params + rule_params
    gvalue = {p["id"]: p["value"] for p in gparams}
    for j in range(draw(st.integers(0, 4))):
        rid = f"rxn{j}"
        locs = {}
        for _ in range(draw(st.integers(0, 2))):
            lid = draw(st.sampled_from(local_pool))
            if lid in gvalue or any(lid in r["locals"] for r in reactions):
                collision = True
            if lid in gvalue and draw(st.booleans()):
                locs[lid] = gvalue[lid]
            else:
                locs[lid] = draw(gen.nice(0.1, 5))
        names = rx_species + gids + list(locs) + (rule_species if draw(st.booleans()) else []) + rule_params
        tree = _leading_minus(draw, _kl_tree(draw, names, draw(st.integers(1, 3))), names)
        for lid in locs:                      # make sure each local parameter is actually used
            if lid not in ref.tree_symbols(tree):
                tree = ["mul", tree, gen.sym(lid)]
        def side():
            picks = draw(st.lists(st.sampled_from(rx_species), max_size=2, unique=True))
            out = [(s, draw(st.sampled_from([1, 1, 2, 3]))) for s in picks]
            if out and draw(st.integers(0, 4)) == 0:
                # the same species named by two speciesReference entries of one side (valid SBML: stoichiometries add)
                s0, n0 = out[draw(st.integers(0, len(out) - 1))]
                out.append((s0, draw(st.sampled_from([1, 2]))))
                out = list(draw(st.permutations(out)))
            return out
        reactants, products = side(), side()
        used = ref.tree_symbols(tree)
        mods = [s for s in sp_names if s in used and s not in [x for x, _ in reactants + products]]
        reactions.append({"id": rid, "reactants": reactants, "products": products, "modifiers": mods, "locals": locs,
                          "tree": tree})
    if clash_class and reactions:
        # a global parameter named like the importer's renaming of a colliding local parameter
        r0 = reactions[0]
        lid = gids[0]
        r0["locals"][lid] = draw(gen.nice(0.1, 5))
        if lid not in ref.tree_symbols(r0["tree"]):
            r0["tree"] = ["mul", r0["tree"], gen.sym(lid)]
        gparams.append({"id": f"{lid}_{r0['id']}", "value": draw(gen.nice(0.1, 5))})
        collision = True
    # rules: targets are rule species / rule params; right-hand sides read only symbols no rule assigns
    rules = []
    rhs_names = rx_species + gids
    targets = list(draw(st.permutations(list(rule_species) + list(rule_params))))
    for tgt in targets:
        kind = draw(st.sampled_from(["assignment", "rate"])) if tgt in rule_species else "assignment"
        rules.append({"kind": kind, "var": tgt,
                      "tree": _leading_minus(draw, _kl_tree(draw, rhs_names, draw(st.integers(1, 2))), rhs_names)})
    return {"species": species, "params": gparams, "reactions": reactions, "rules": rules}, collision, clash_class


@st.composite
def nested_power_case(draw):
    """The only special feature: a kinetic law containing (a^b)^c."""
    k = draw(gen.nice(0.2, 3))
    b_, c_ = draw(st.sampled_from([2.0, 3.0])), draw(st.sampled_from([2.0, 3.0]))
    tree = ["mul", gen.sym("k"), ["pow", ["pow", gen.sym("A"), gen.num(b_)], gen.num(c_)]]
    d = {"species": [{"id": "A", "amount": draw(gen.nice(0.5, 3)), "conc": None}], "params": [{"id": "k", "value": k}],
         "reactions": [{"id": "rxn0", "reactants": [("A", 1)], "products": [], "modifiers": [], "locals": {}, "tree": tree}],
         "rules": []}
    return d


@st.composite
def cases(draw):
    if draw(st.integers(0, 25)) == 0:
        d = draw(nested_power_case())
        states = [{"A": draw(gen.nice(0.5, 3))} for _ in range(3)]
        return {"kind": "doc", "doc": d, "states": states, "collision": False, "clash_class": False, "nested_power": True}
    if draw(st.integers(0, 40)) == 0:
        return {"kind": "both_attrs", "doc": {}, "amount": draw(st.sampled_from([0.0, 3.0, 7.5])),
                "conc": draw(st.sampled_from([2.0, 11.0]))}
    d, collision, clash = draw(documents())
    states = [{s["id"]: draw(gen.nice(0.1, 10)) for s in d["species"]} for _ in range(draw(st.integers(2, 6)))]
    return {"kind": "doc", "doc": d, "states": states, "collision": collision, "clash_class": clash}


def search(ctx):
    scale = ctx.job.get("scale", 1)
    ctx.run_hypothesis("documents", cases(), check, ctx.share((60000 if ctx.thorough else 5000) * scale))
