"""C05 - stochastic simulation samples the chemical master equation exactly."""
import numpy as np
from hypothesis import strategies as st

from vf import cme as cmemod, distcheck, gen, ref, spec as specmod
from vf.core import R


def grid_array(grid, layout):
    """The same time values in different (all valid) memory layouts."""
    g = np.array(grid, dtype=float)
    if layout == "strided":
        wide = np.empty(2 * len(g))
        wide[::2] = g
        wide[1::2] = -1.0
        return wide[::2]
    if layout == "column":
        table = np.full((len(g), 3), -1.0)
        table[:, 1] = g
        return table[:, 1]
    return g


def stretch_time(sp, c):
    """The same network in a time unit c times longer: every rate constant divided by c (the chain observed at times
    c*t has the law of the original chain at times t)."""
    import copy
    out = copy.deepcopy(sp)
    for rx in out["reactions"]:
        if rx["type"] == "general":
            rx["tree"] = ["mul", ["num", 1.0 / c], rx["tree"]]
            rx["pd"]["rate"] = ref.show(rx["tree"])
        else:
            k = rx["pd"]["k"]
            if isinstance(k, str):
                out["params"][k] = float(out["params"][k]) / c
            else:
                rx["pd"]["k"] = float(k) / c
    return out


def simulate_paths_factory(sp, grid, how, layout="contiguous"):
    """Returns simulate(n, seed) -> (n, T, nspecies in spec order)."""
    from bioscrape.simulator import ModelCSimInterface, SafeModelCSimInterface, SSASimulator, py_simulate_model
    from bioscrape.random import py_seed_random
    with specmod.quiet():
        M = specmod.to_model(sp)
        I = SafeModelCSimInterface(M) if how == "safe" else ModelCSimInterface(M)
    tp = grid_array(grid, layout)
    if len(tp) > 1:
        I.py_set_dt(float(tp[1] - tp[0]))
    order = [M.get_species2index()[s] for s in sp["species"]]
    sim = SSASimulator()

    def simulate(n, seed):
        py_seed_random(seed)
        out = np.empty((n, len(tp), len(order)))
        if how == "model_api":
            with specmod.quiet():
                for i in range(n):
                    df = py_simulate_model(tp, Model=M, stochastic=True)
                    out[i] = df[sp["species"]].to_numpy()
        else:
            for i in range(n):
                out[i] = sim.py_simulate(I, tp).py_get_result()[:, order]
        return out
    return simulate


def check(case):
    res = R()
    sp, grid = case["spec"], case["grid"]
    how = case["how"]
    try:
        cme = distcheck.build_cme(sp, "stoch", 1.0, cap=case.get("cap", 400), safe=(how == "safe"))
    except cmemod.TooLarge:
        res.skip = "state space above cap"
        return res
    n1 = case["n1"] if how != "model_api" else max(case["n1"] // 20, 300)
    c = float(case.get("time_scale", 1.0))
    if c != 1.0:
        # reference: the unscaled network on the unscaled grid; simulated: rates / c on the grid c * t
        simulate = simulate_paths_factory(stretch_time(sp, c), [t * c for t in grid], how, case.get("layout", "contiguous"))
        res.label("time_unit_stretched_by:%g" % c)
    else:
        simulate = simulate_paths_factory(sp, grid, how, case.get("layout", "contiguous"))
    rej, report = distcheck.compare(cme, grid, simulate, n1, case["seed"], case["seed"] + 7919)
    types = sorted({rx["type"] for rx in sp["reactions"]})
    for name, p, info in rej:
        kind = "impossible_state" if info.get("impossible") else ("marginal" if name.startswith("marginal") else "joint")
        res.fail(("distribution", kind, how, "+".join(types)), test=name, pvalue=p, info=info, report=report,
                 states=cme.n)
        break
    res.label("how:" + how, *["type:" + t for t in types])
    res.label("reactions:%d" % len(sp["reactions"]), "grid_layout:" + case.get("layout", "contiguous"),
              "grid_starts_at_0" if grid[0] == 0 else "grid_starts_later")
    orders = [len(rx["r"]) for rx in sp["reactions"] if rx["type"] == "massaction"]
    if any(o >= 2 for o in orders):
        res.label("order>=2")
    if any(len(set(rx["r"])) < len(rx["r"]) for rx in sp["reactions"]):
        res.label("repeated_reactant")
    if report.get("stage2"):
        res.label("stage2_run")
    res.nontrivial = len(sp["reactions"]) >= 2 and distcheck.spread(cme, grid) >= 2
    return res


@st.composite
def grids(draw):
    regime = draw(st.sampled_from(["coarse", "fine", "mixed"]))
    n = draw(st.integers(2, 6))
    if regime == "coarse":
        dt = draw(st.sampled_from([0.5, 1.0, 2.0]))
        g = [i * dt for i in range(n)]
    elif regime == "fine":
        dt = draw(st.sampled_from([0.01, 0.03125, 0.0625]))
        g = [i * dt for i in range(n)]
    else:
        incs = [draw(st.sampled_from([0.02, 0.1, 0.5, 1.5])) for _ in range(n - 1)]
        g = [0.0]
        for d in incs:
            g.append(round(g[-1] + d, 10))
    if draw(st.integers(0, 3)) == 0:
        # the first reported time need not be the start of the simulation (which is the interface's initial time, 0)
        off = draw(st.sampled_from([0.25, 1.0, g[1] - g[0]]))
        g = [round(t + off, 10) for t in g]
    return g


@st.composite
def cases(draw, n1):
    how = draw(st.sampled_from(["interface"] * 5 + ["safe"] * 3 + ["model_api"]))
    if draw(st.integers(0, 3)) == 0:
        sp = draw(gen.finite_networks(safe=(how == "safe"), max_rx=7, min_rx=5, max_count=4))
    else:
        sp = draw(gen.finite_networks(safe=(how == "safe")))
    return {"kind": "cme", "spec": sp, "grid": draw(grids()), "how": how, "n1": n1,
            "layout": draw(st.sampled_from(["contiguous", "contiguous", "strided", "column"])),
            "time_scale": draw(st.sampled_from([1.0, 1.0, 1.0, 1.0, 1e6, 1e13, 1e-6])),
            "seed": draw(st.integers(1, 2 ** 40))}


def search(ctx):
    scale = ctx.job.get("scale", 1)
    n1 = 40000 if ctx.thorough else 10000
    ctx.run_hypothesis("cme", cases(n1), check, ctx.share((8000 if ctx.thorough else 1000) * scale), shrink=False)
