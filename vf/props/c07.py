"""C07 - every simulation mode returns a complete, correctly labelled result (exhaustive option lattice)."""
import itertools
import traceback

import numpy as np
from hypothesis import strategies as st

from vf import gen, ref, spec as specmod
from vf.core import R

STOCH = [False, True]
DELAY = [None, False, True]
SAFE = [False, True]
VOLUME = ["off", "flag", 1.0, 2.5, "object", "off_numpy_bool", "flag_numpy_bool"]
DF = [True, False]
SOURCE = ["model", "interface", "safe_interface"]
OPTION_WORDS = ("Model", "Interface", "delay", "volume", "stochastic", "safe", "option", "CSimInterface")


def lattice(thorough):
    vols = VOLUME + ["dividing_object"]
    return [dict(stochastic=a, delay=b, safe=c, volume=d, return_dataframe=e, source=f)
            for a, b, c, d, e, f in itertools.product(STOCH, DELAY, SAFE, vols, DF, SOURCE)]


def _apply_rules_ref(sp, state, t=0.0, vol=1.0):
    """Repeated assignment / additive rules in declaration order."""
    st_ = dict(state)
    params = dict(sp["params"])
    for rl in sp.get("rules", []):
        if rl.get("freq", "repeated") not in ("repeated", "repeat", "dt"):
            continue          # ("dt": once per time step, the first of them at the start - like a repeated rule in row 0)
        env = dict(params)
        env.update(st_)
        v = ref.eval_tree(rl["tree"], env, t, vol)
        if rl["dest"] in st_:
            st_[rl["dest"]] = v
        else:
            params[rl["dest"]] = v
    return st_


def check(case):
    from bioscrape.simulator import (py_simulate_model, ModelCSimInterface, SafeModelCSimInterface)
    from bioscrape.types import Volume, StochasticTimeThresholdVolume
    from bioscrape.random import py_seed_random
    import pandas as pd
    res = R()
    sp, opt = case["spec"], case["opt"]
    tp = np.array(case["grid"], dtype=float)
    layout = sp.get("grid_layout", "contiguous")
    if layout == "strided":                    # the same times as a view into a larger array
        big = np.full(2 * len(tp), -1.0)
        big[::2] = tp
        tp = big[::2]
    elif layout == "column":                   # ... or as a column of a table
        tab = np.zeros((len(tp), 3))
        tab[:, 1] = tp
        tp = tab[:, 1]
    if layout != "contiguous":
        res.label("time_grid_layout:" + layout)
    with specmod.quiet():
        M = specmod.to_model(sp)
    species_order = list(M.get_species_list())
    if sp.get("caller_edits_species_list"):
        # what the model hands out is the caller's to keep: re-ordering or extending it changes nothing in the model
        lst = M.get_species_list()
        lst.reverse()
        lst.append("not_a_species")
        res.label("caller_edited_the_returned_species_list")
    kwargs = dict(stochastic=opt["stochastic"], delay=opt["delay"], safe=opt["safe"],
                  return_dataframe=opt["return_dataframe"])
    vol = opt["volume"]
    divides = False
    if vol == "off":
        kwargs["volume"] = False
    elif vol == "flag":
        kwargs["volume"] = True
    elif vol == "off_numpy_bool":          # the flag as numpy produces it, e.g. (arr > x).any()
        kwargs["volume"] = np.bool_(False)
    elif vol == "flag_numpy_bool":
        kwargs["volume"] = np.bool_(True)
    elif vol == "object":
        v = Volume()
        v.py_set_volume(1.5)
        kwargs["volume"] = v
    elif vol == "dividing_object":
        v = StochasticTimeThresholdVolume(float(tp[-1]), 2.0, 0.0)
        x0v = specmod.state_vector(M, sp["x0"])
        v.py_initialize(x0v, np.array(M.get_parameter_values(), dtype=float), 0.0, 1.5)
        kwargs["volume"] = v
        divides = True
    else:
        kwargs["volume"] = float(vol)
    with specmod.quiet():
        if opt["source"] == "model":
            kwargs["Model"] = M
        elif opt["source"] == "interface":
            kwargs["Interface"] = ModelCSimInterface(M)
        else:
            kwargs["Interface"] = SafeModelCSimInterface(M)
        route = sp.get("state_route", "model")
        if "Interface" in kwargs and route != "model":
            # the pre-built interface was given its initial state explicitly (as inference and lineage code do): molecule
            # counts as an integer array, or a buffer the caller re-uses afterwards - the interface keeps its own copy
            x0v = specmod.state_vector(M, sp["x0"])
            if route == "int_array":
                kwargs["Interface"].py_set_initial_state(x0v.astype(int))
            else:
                buf = x0v.copy()
                kwargs["Interface"].py_set_initial_state(buf)
                buf[:] = 77.0
            res.label("interface_state_set_explicitly:" + route)
    py_seed_random(case["seed"])
    vol_off = vol in ("off", "off_numpy_bool")
    volume_used = (not vol_off) and (opt["stochastic"] or bool(opt["delay"]))
    feat = f"delay={bool(opt['delay'])},volume={'off' if vol_off else 'on'}"
    res.nontrivial = bool(opt["delay"]) or (not vol_off) or opt["source"] != "model"
    res.label("delay" if opt["delay"] else "nodelay", f"volume:{vol}", f"source:{opt['source']}")
    try:
        with specmod.quiet():
            out = py_simulate_model(tp, **kwargs)
    except Exception as exc:
        tb = traceback.extract_tb(exc.__traceback__)
        inner = tb[-1]
        explicit = (isinstance(exc, (ValueError, TypeError)) and inner.name.endswith("py_simulate_model")
                    and any(w in str(exc) for w in OPTION_WORDS))
        if explicit:
            res.label("explicit_option_error")
            return res
        res.fail(("fails_from_inside", type(exc).__name__, inner.name.split(".")[-1]),
                 options=opt, message=str(exc)[:300])
        return res
    # ---- a result was returned -------------------------------------------------------------------
    nsp = len(species_order)
    if opt["return_dataframe"]:
        if not isinstance(out, pd.DataFrame):
            res.fail(("not_a_dataframe",), options=opt, got=type(out).__name__)
            return res
        cols = list(out.columns)
        exp_cols = (species_order if opt["source"] == "model" else list(range(nsp))) + ["time"] + (["volume"] if volume_used else [])
        if cols != exp_cols:
            res.fail(("columns", feat), options=opt, got=[str(c) for c in cols], expected=[str(c) for c in exp_cols])
            return res
        data = out.iloc[:, :nsp].to_numpy(dtype=float)
        try:
            times = out["time"].to_numpy(dtype=float)
        except (TypeError, ValueError):
            res.fail(("time_axis", feat), options=opt, got=str(list(out["time"])[:5]), expected=list(tp[:5]))
            return res
        volcol = out["volume"].to_numpy(dtype=float) if volume_used else None
        divided = len(times) < len(tp)
    else:
        for meth in ("py_get_result", "py_get_timepoints"):
            if not hasattr(out, meth):
                res.fail(("result_object_api", meth), options=opt, got=type(out).__name__)
                return res
        data = np.asarray(out.py_get_result(), dtype=float)
        times = out.py_get_timepoints()
        if times is None:
            res.fail(("time_axis", feat), options=opt, got=None, expected=list(tp[:5]))
            return res
        times = np.asarray(times, dtype=float)
        volcol = None
        if volume_used:
            if not hasattr(out, "py_get_volume"):
                res.fail(("volume_missing", feat), options=opt, got=type(out).__name__)
                return res
            volcol = np.asarray(out.py_get_volume(), dtype=float)
        divided = bool(out.py_cell_divided()) if hasattr(out, "py_cell_divided") else False
    nrows = data.shape[0]
    if divided and divides:
        if not (1 <= nrows <= len(tp)):
            res.fail(("row_count", feat), options=opt, got=nrows, expected="prefix of %d" % len(tp))
            return res
        exp_t = tp[:nrows]
    else:
        if nrows != len(tp):
            res.fail(("row_count", feat), options=opt, got=nrows, expected=len(tp))
            return res
        exp_t = tp
    if data.ndim != 2 or data.shape[1] != nsp:
        res.fail(("species_columns", feat), options=opt, got=list(data.shape), expected=[nrows, nsp])
        return res
    if times.shape != exp_t.shape or not np.array_equal(times, exp_t):
        res.fail(("time_axis", feat), options=opt, got=[float(x) for x in np.ravel(times)[:6]], expected=list(exp_t[:6]))
        return res
    if volcol is not None:
        if volcol.shape[0] != nrows or not np.all(volcol > 0):
            res.fail(("volume_column", feat), options=opt, got=[float(x) for x in volcol[:6]])
            return res
    vol0 = {"off": 1.0, "flag": 1.0, "object": 1.5, "dividing_object": 1.5, "off_numpy_bool": 1.0,
            "flag_numpy_bool": 1.0}.get(vol, vol if not isinstance(vol, str) else 1.0)
    exp0 = _apply_rules_ref(sp, sp["x0"], t=float(tp[0]), vol=float(vol0) if volume_used else 1.0)
    for i, s in enumerate(species_order):
        if abs(data[0, i] - exp0[s]) > 1e-9 * (1 + abs(exp0[s])):
            res.fail(("first_row", feat), options=opt, species=s, got=float(data[0, i]), expected=exp0[s],
                     species_order=species_order)
            return res
    # the same Model / interface is used again (a plain deterministic call): its first row is still the initial
    # condition - whatever mode ran before must not have touched the model's initial state
    if any(rl.get("dest") == "qt" for rl in sp.get("rules", [])):
        # a parameter written by a time-reading rule keeps its last value in the model's parameter array (a rule's target
        # is state of the model, shared with its interfaces); a species rule listed before it reads that value at the
        # start of the next run, so "the initial condition" of a second run is not defined by the declaration alone
        res.label("next_simulation_not_compared:parameter_rule_after_reader")
        return res
    again = {k: v for k, v in kwargs.items() if k in ("Model", "Interface")}
    with specmod.quiet():
        out2 = py_simulate_model(tp[:2], return_dataframe=False, **again)
    row0 = np.asarray(out2.py_get_result(), dtype=float)[0]
    exp1 = _apply_rules_ref(sp, sp["x0"], t=float(tp[0]), vol=1.0)
    for i, s in enumerate(species_order):
        if abs(row0[i] - exp1[s]) > 1e-9 * (1 + abs(exp1[s])):
            res.fail(("first_row_of_the_next_simulation", feat), options=opt, species=s, got=float(row0[i]), expected=exp1[s])
            return res
    return res


@st.composite
def models(draw, flags=None):
    """Small bounded models with / without delay reactions and with / without a repeated assignment rule."""
    species = draw(gen.species_names(2, 4))
    species = list(draw(st.permutations(species)))
    b = gen.Builder(draw, species)
    with_delay, with_rule = flags if flags is not None else (draw(st.booleans()), draw(st.booleans()))
    tot = None
    dyn = list(species)
    if with_rule:
        tot = dyn.pop()          # rule target: appears in no reaction
    for _ in range(draw(st.integers(1, 3))):
        typ = draw(st.sampled_from(["massaction", "massaction", "hillpositive", "general"]))
        a = draw(st.sampled_from(dyn))
        c = draw(st.sampled_from(dyn))
        if typ == "massaction":
            rx = gen.massaction(b, [a], [c] if c != a else [])
        elif typ == "hillpositive":
            rx = gen.hill(b, typ, [a], [c] if c != a else [], a)
            # integer exponent: a fractional one makes the rate undefined as soon as the ODE integrator
            # overshoots to a slightly negative count, which is a property of the model, not of the options
            rx["pd"]["n"] = float(draw(st.sampled_from([1, 2])))
        else:
            k = gen.sym(b.new_param(draw(gen.logfl(0.05, 3))))
            rx = gen.general([a], [c] if c != a else [], ["div", ["mul", k, gen.sym(a)], ["add", gen.num(2), gen.sym(a)]])
        if with_delay and draw(st.booleans()):
            rx["delay"] = {"type": draw(st.sampled_from(["fixed", "gaussian", "gamma"])), "r": [], "p": [draw(st.sampled_from(dyn))],
                           "pd": {}}
            d = rx["delay"]
            if d["type"] == "fixed":
                d["pd"] = {"delay": draw(gen.logfl(0.1, 3))}
            elif d["type"] == "gaussian":
                d["pd"] = {"mean": draw(gen.logfl(0.3, 3)), "std": 0.1}
            else:
                d["pd"] = {"k": 2.0, "theta": draw(gen.logfl(0.1, 1))}
        b.reactions.append(rx)
    x0 = {s: float(draw(st.integers(0, 15))) for s in species}
    if with_rule:
        srcs = draw(st.lists(st.sampled_from(dyn), min_size=1, max_size=2, unique=True))
        tree = ["add"] + [gen.sym(s) for s in srcs] + [gen.num(draw(st.sampled_from([0.0, 1.0, 2.5])))]
        later = None
        prule = draw(st.integers(0, 3))
        if prule == 0:
            # a rule that assigns a parameter (reading the volume) ahead of the species rule that reads that parameter
            b.params["qv"] = 0.5
            ptree = ["add", ["mul", gen.num(2.0), ["vol"]], gen.num(1.0)]
            b.rules.append({"type": "assignment", "eq": f"qv = {ref.show(ptree)}", "freq": "repeated", "tree": ptree,
                            "dest": "qv"})
            tree.append(gen.sym("qv"))
        elif prule in (1, 2):
            # a rule that assigns a parameter from the time, listed AFTER the species rule that reads that parameter: in
            # row 0 the species rule sees the declared value, which equals the rule's value at t = 0 (so the row is the
            # same whichever of the two the simulator holds at that moment) - not a value left over from a later time
            if prule == 2:
                for i_ in range(len(species)):          # declared, unused: the model has more parameters than species
                    b.params[f"pad{i_}"] = 1.0 + i_
            b.params["qt"] = 3.0
            ptree = ["mul", gen.num(2.0), ["add", ["t"], gen.num(1.5)]]
            later = {"type": "assignment", "eq": f"qt = {ref.show(ptree)}", "freq": "repeated", "tree": ptree, "dest": "qt"}
            tree.append(gen.sym("qt"))
        extra = draw(st.sampled_from(["none", "time", "volume", "both"]))
        if extra in ("time", "both"):          # the rule also reads the time ...
            tree.append(["mul", gen.num(2.0), ["add", ["t"], gen.num(1.5)]])
        if extra in ("volume", "both"):        # ... and the volume (1 where no volume is in play)
            tree.append(["mul", gen.num(3.0), ["vol"]])
        b.rules.append({"type": "assignment", "eq": f"{tot} = {ref.show(tree)}",
                        "freq": draw(st.sampled_from(["repeated", "repeated", "dt"])), "tree": tree, "dest": tot})
        if later is not None:
            b.rules.append(later)
    sp = b.spec(x0)
    sp["state_route"] = draw(st.sampled_from(["model", "model", "int_array", "reused_buffer"]))
    sp["grid_layout"] = draw(st.sampled_from(["contiguous", "contiguous", "strided", "column"]))
    sp["caller_edits_species_list"] = draw(st.booleans())
    return sp


@st.composite
def cases(draw, combos):
    sp = draw(models())
    dt = draw(st.sampled_from([0.25, 0.5, 1.0]))
    n = draw(st.sampled_from([2, 5, 17]))
    return {"kind": "combo", "spec": sp, "grid": [i * dt for i in range(n)], "opt": draw(st.sampled_from(combos)),
            "seed": draw(st.integers(1, 2 ** 31))}


def search(ctx):
    """Exhaustive over the option lattice for each generated (model, grid); models come from a seeded Hypothesis draw."""
    import hypothesis
    from hypothesis import given, settings, HealthCheck, Phase
    scale = ctx.job.get("scale", 1)
    combos = lattice(ctx.thorough)
    n_models = int((300 if ctx.thorough else 24) * scale)
    drawn = []

    for fi, flags in enumerate([(True, True), (False, False), (True, False), (False, True)]):
        want = n_models // 4 + (1 if fi < n_models % 4 else 0)
        got = []

        @hypothesis.seed(ctx.base_seed * 1000003 + 7 + fi)   # the same models in every shard; combos are sharded
        @settings(max_examples=max(want, 1), database=None, deadline=None, phases=[Phase.generate],
                  suppress_health_check=list(HealthCheck))
        @given(models(flags), st.sampled_from([0.25, 0.5, 1.0]), st.sampled_from([2, 5, 17]), st.integers(1, 2 ** 31))
        def collect(sp, dt, n, seed):
            if len(got) < want:
                got.append((sp, dt, n, seed))

        if want:
            collect()
        drawn.extend(got)

    def all_cases():
        for (sp, dt, n, seed) in drawn:
            for opt in combos:
                yield {"kind": "combo", "spec": sp, "grid": [i * dt for i in range(n)], "opt": opt, "seed": seed}

    ctx.run_cases("lattice", all_cases(), check)
    ctx.notes.append(f"{len(drawn)} models x {len(combos)} option combinations enumerated exhaustively")
