"""C14 - exported kinetic laws equal the model's own rate laws."""
import math
import os

import numpy as np
from hypothesis import strategies as st

from vf import gen, ref, sbmlmath, spec as specmod
from vf.core import R


def export(M, stochastic, tag="c14"):
    path = os.path.abspath(f"{tag}_{os.getpid()}.xml")
    with specmod.quiet():
        M.write_sbml_model(path, stochastic_model=stochastic)
    return path


def check(case):
    res = R()
    sp = case["spec"]
    with specmod.quiet():
        if case.get("refusals"):
            # reactions added call by call with refused calls in between: the document describes the accepted ones only
            M = specmod.build_with_refusals(sp, case["refusals"], res)
            if M is None:
                return res
            M.py_initialize()
        else:
            M = specmod.to_model(sp, share_dicts=bool(case.get("share_dicts")))
    if case.get("share_dicts"):
        res.label("shared_parameter_dictionary")
    _verify(case, M, res, "")
    if not res.fails and case.get("again_after_value_change") and sp["params"]:
        # the same model object exported a second time after its named parameters were given new values: the second
        # document describes the model as it is now
        with specmod.quiet():
            M.set_params({p_: 1.5 * float(v_) + 0.25 for p_, v_ in sp["params"].items()})
        res.label("exported_again_after_value_change")
        _verify(case, M, res, "second_export_after_value_change")
    return res


def _hill_value(M, entry):
    """A propensity entry is a number or the name of a model parameter (current value of the model object)."""
    return float(M.get_parameter_dictionary()[entry]) if isinstance(entry, str) else float(entry)


def _hill_recorded_deviation(M, rx, state):
    """Value of the Hill kinetic law as the pinned exporter writes it (known finding): k [d] s^n / (s^n + K) for the
    positive forms, k [d] / (s^n + K) for the negative ones."""
    pd = rx["pd"]
    try:
        k, K, n = _hill_value(M, pd["k"]), _hill_value(M, pd["K"]), _hill_value(M, pd["n"])
        sn = float(state[pd["s1"]]) ** n
        v = k * sn / (sn + K) if "positive" in rx["type"] else k / (sn + K)
        if rx["type"].startswith("proportional"):
            v *= float(state[pd["d"]])
        return float(v)
    except (ZeroDivisionError, OverflowError, ValueError, TypeError, KeyError):
        return None


def _verify(case, M, res, phase):
    import libsbml
    sp, stochastic = case["spec"], case["stochastic"]
    flavour = "stochastic_export" if stochastic else "deterministic_export"     # (the phase is a detail, not a root cause)
    path = export(M, stochastic)
    try:
        doc = libsbml.readSBML(path)
    finally:
        os.remove(path)
    model = doc.getModel()
    if model is None or model.getNumReactions() != len(sp["reactions"]):
        res.fail(("document_structure", flavour), reactions=model.getNumReactions() if model else None,
                 expected=len(sp["reactions"]))
        return res
    species_ids = {s.getId() for s in model.getListOfSpecies()}
    if species_ids != set(sp["species"]):
        res.fail(("species_ids", flavour), got=sorted(species_ids), expected=sorted(sp["species"]))
        return res
    for p in model.getListOfParameters():
        if not p.isSetValue():          # (a kinetic law over a parameter without a value has no value either)
            res.fail(("global_parameter_without_value", flavour), parameter=p.getId(), phase=phase or "first_export",
                     model_value=float(M.get_parameter_dictionary().get(p.getId(), float("nan"))))
            return res
    gparams = {p.getId(): p.getValue() for p in model.getListOfParameters()}
    props = M.get_propensities()
    pvals = np.array(M.get_parameter_values(), dtype=float)
    nt = False
    for j, rx in enumerate(sp["reactions"]):
        r = model.getReaction(j)
        typ = rx["type"]
        rep = len(set(rx["r"])) < len(rx["r"])
        tag = typ if typ != "massaction" else ("massaction_order%d" % min(len(rx["r"]), 3) + ("_repeated" if rep else ""))
        res.label(f"{flavour}:{typ}", *(["tiny_rate_constant"] if rx.get("tiny") else []))
        if typ != "massaction" or (len(rx["r"]) >= 2 and rep):
            nt = True
        # stoichiometry of the document = multiplicities of the reaction
        for side, lst, getter in (("reactant", rx["r"], r.getListOfReactants()), ("product", rx["p"], r.getListOfProducts())):
            got = {}
            for ref_ in getter:
                got[ref_.getSpecies()] = got.get(ref_.getSpecies(), 0) + ref_.getStoichiometry()
            exp = {s: float(lst.count(s)) for s in set(lst)}
            if got != exp:
                res.fail(("stoichiometry", side, flavour), reaction=j, got=got, expected=exp)
                return res
        kl = r.getKineticLaw()
        if kl is None or kl.getMath() is None:
            res.fail(("no_kinetic_law", tag, flavour), reaction=j)
            return res
        local = {p.getId(): p.getValue() for p in kl.getListOfParameters()}
        ids = sbmlmath.identifiers(kl.getMath())
        undefined = sorted(i for i in ids if i not in species_ids and i not in gparams and i not in local)
        n_bound = None
        if undefined:
            res.fail(("undefined_identifier", tag, flavour), reaction=j, undefined=undefined,
                     formula=libsbml.formulaToL3String(kl.getMath()))
            if not (typ in ref.HILL_TYPES and undefined == ["n"] and "n" not in species_ids):
                continue
            # the recorded finding (a literal `n` in the Hill numerator) would otherwise end the search for this law: go on
            # with `n` read as the Hill exponent, and hold the law to "the model's rate, or exactly the recorded deviation"
            n_bound = _hill_value(M, rx["pd"]["n"])
        for st_ in case["states"]:
            env = dict(gparams)
            env.update(local)
            env.update(st_)
            if n_bound is not None:
                env["n"] = n_bound
            x = specmod.state_vector(M, st_)
            own = props[j].py_verif_stochastic_propensity(x, pvals, 0.0) if stochastic else props[j].py_get_propensity(x, pvals, 0.0)
            try:
                got = sbmlmath.evaluate(kl.getMath(), env, 0.0)
            except sbmlmath.MathUndefined:
                continue
            if not (math.isfinite(own) and math.isfinite(got)):
                continue
            # purely relative: a rate constant of 1e-14 is as good a rate constant as 1 (both sides evaluate the same
            # formula in double precision; they differ by a few ulp of libm pow at most)
            if abs(got - own) > 1e-9 * max(abs(own), abs(got)) + 1e-300:
                if typ in ref.HILL_TYPES:
                    # the recorded deviation of the Hill laws is one specific formula (K where the rate has K^n, no K^n in
                    # the numerator of the negative forms); any other value is a different fault of the same law
                    dev = _hill_recorded_deviation(M, rx, st_)
                    if dev is None or not math.isfinite(dev) or abs(got - dev) > 1e-9 * max(abs(dev), abs(got)) + 1e-300:
                        res.fail(("kinetic_law_other_deviation", tag, flavour), phase=phase or "first_export", reaction=j,
                                 state=st_, got=got, own_rate=own, recorded_deviation=dev,
                                 formula=libsbml.formulaToL3String(kl.getMath()), rxn=rx)
                        break
                    if n_bound is not None:
                        continue          # (already reported above, as the undefined identifier of this law)
                res.fail(("kinetic_law_value", tag, flavour), phase=phase or "first_export", reaction=j, state=st_, got=got, own_rate=own,
                         formula=libsbml.formulaToL3String(kl.getMath()), rxn=rx)
                break
    res.nontrivial = res.nontrivial or nt
    return res


def tiny_rate_constants(draw, sp):
    """Now and then a mass-action rate constant is very small or has many digits (molar units, fitted values)."""
    for rx in sp["reactions"]:
        if rx["type"] == "massaction" and draw(st.integers(0, 3)) == 0:
            f = draw(st.sampled_from([1e-13, 3.2e-15, 1.6605390671e-6, 7.25e-13]))
            k = rx["pd"]["k"]
            if isinstance(k, str):
                sp["params"][k] = float(sp["params"][k]) * f
            else:
                rx["pd"]["k"] = float(k) * f
            rx["tiny"] = True


def shared_rate_constant(draw, sp):
    """Now and then all mass-action reactions share one named rate constant and are built from one dict object."""
    ma = [rx for rx in sp["reactions"] if rx["type"] == "massaction"]
    if len(ma) >= 2 and draw(st.integers(0, 4)) == 0:
        sp["params"]["kshared"] = draw(gen.logfl(0.05, 5))
        for rx in ma:
            rx["pd"] = {"k": "kshared"}
        return True
    return False


@st.composite
def cases(draw):
    sp = draw(gen.structural_models(step=False, time=False, delay_prob=5))
    tiny_rate_constants(draw, sp)
    share = shared_rate_constant(draw, sp)
    stochastic = draw(st.booleans())
    states = []
    for _ in range(draw(st.integers(2, 5))):
        if stochastic:
            states.append({s: float(draw(st.one_of(st.sampled_from([0, 1, 2]), st.integers(0, 12)))) for s in sp["species"]})
        else:
            states.append({s: draw(st.one_of(st.sampled_from([0.0, 1.0]), gen.amount(12))) for s in sp["species"]})
    # a switched-off term now and then: a named parameter that is exactly zero
    named = sorted(sp["params"])
    if named and draw(st.integers(0, 5)) == 0:
        sp["params"][draw(st.sampled_from(named))] = 0.0
    refusals = []
    if not share and draw(st.integers(0, 5)) == 0:
        refusals = [[draw(st.integers(0, len(sp["reactions"]))), draw(st.sampled_from(specmod.REFUSAL_KINDS))]
                    for _ in range(draw(st.integers(1, 2)))]
    return {"kind": "export", "spec": sp, "stochastic": stochastic, "states": states, "share_dicts": share,
            "again_after_value_change": draw(st.integers(0, 3)) == 0, "refusals": refusals}


def search(ctx):
    scale = ctx.job.get("scale", 1)
    ctx.run_hypothesis("export", cases(), check, ctx.share((40000 if ctx.thorough else 3000) * scale))
