"""C20 - the delay queue delivers each entry once, in order, at the nearest grid time.
Histories are generated as operation lists (shrunk as one value) and run against a dictionary model."""
import numpy as np
from hypothesis import strategies as st

from vf.core import R

OFFS = [0.0, 0.0, 0.0, 0.1, -0.1, 0.25, -0.25, 0.4, -0.4]


class ModelQ:
    """Reference: absolute slot index -> counts per reaction."""

    def __init__(self, nrxn, ncols, cur, slots=None):
        self.nrxn, self.ncols, self.cur = nrxn, ncols, cur
        self.slots = dict(slots or {})

    def add(self, rxn, j, amount):
        tgt = self.cur + min(max(j, 0), self.ncols - 1)
        v = self.slots.setdefault(tgt, [0.0] * self.nrxn)
        v[rxn] += amount

    def pop(self):
        v = self.slots.pop(self.cur, [0.0] * self.nrxn)
        self.cur += 1
        return v

    def copy(self):
        return ModelQ(self.nrxn, self.ncols, self.cur, {k: list(v) for k, v in self.slots.items()})

    def pending(self):
        return {k: list(v) for k, v in sorted(self.slots.items()) if any(v)}


def _drain(q, nrxn, n):
    """Read n slots from a queue (destructive): list of (time, counts)."""
    out = []
    buf = np.zeros(nrxn)
    for _ in range(n):
        t = q.py_get_next_queue_time()
        q.py_get_next_reactions(buf)
        out.append((float(t), [float(x) for x in buf]))
        q.py_advance_time()
    return out


def check(case):
    from bioscrape.simulator import ArrayDelayQueue
    from bioscrape.random import py_seed_random
    res = R()
    nrxn, ncols, dt = case["nrxn"], case["ncols"], case["dt"]
    py_seed_random(case["seed"])
    q = ArrayDelayQueue.setup_queue(nrxn, ncols, dt)
    start = case["t0_steps"]
    frac = float(case.get("t0_frac", 0.0))       # the queue's grid is start + k dt for any starting time, not the multiples of dt
    q.py_set_current_time((start + frac) * dt)
    model = ModelQ(nrxn, ncols, start + 1)
    shadows = []           # (label, queue, model) objects that must stay as they were
    advances = 0
    wrapped_pending = False
    diverged = False
    total_added = 0.0
    delivered = 0.0
    last_time = None
    buf = np.zeros(nrxn)

    def verify_time(where):
        t = q.py_get_next_queue_time()
        if t != (model.cur + frac) * dt:
            res.fail(("next_queue_time", where), got=float(t), expected=(model.cur + frac) * dt)
            return False
        return True

    for op in case["ops"]:
        if res.fails:
            break
        kind = op[0]
        if kind == "add":
            _, rxn, j, off, amount = op
            rxn = rxn % nrxn
            req = q.py_get_next_queue_time() + (j + off) * dt
            q.py_add_reaction(req, rxn, float(amount))
            model.add(rxn, j, float(amount))
            total_added += amount
            res.label("add:before" if j < 0 else ("add:beyond" if j >= ncols else ("add:between" if off else "add:on_slot")))
            if shadows:
                diverged = True
        elif kind == "adv":
            if not verify_time("before_read"):
                break
            t = q.py_get_next_queue_time()
            q.py_get_next_reactions(buf)
            got = [float(x) for x in buf]
            pending_later = any(k > model.cur and any(v) for k, v in model.slots.items())
            exp = model.pop()
            if got != exp:
                res.fail(("delivery_counts",), time=float(t), got=got, expected=exp, pending=model.pending())
                break
            if last_time is not None and not (t > last_time):
                res.fail(("delivery_order",), time=float(t), previous=last_time)
                break
            last_time = float(t)
            delivered += sum(got)
            q.py_advance_time()
            advances += 1
            if advances >= ncols and pending_later:
                wrapped_pending = True
            if shadows:
                diverged = True
            verify_time("after_advance")
        elif kind == "copy":
            c = q.py_copy()
            if c is None:
                res.fail(("copy_returns_none",))
                break
            if op[1] == 0:
                shadows.append(("original_after_copy", q, model.copy()))
                q = c
            else:
                shadows.append(("copy", c, model.copy()))
            res.label("op:copy")
        elif kind == "part":
            p = [0.1, 0.5, 0.9][op[1] % 3]
            parts = q.py_binomial_partition(p)
            q1, q2 = parts[0], parts[1]
            c1 = _drain(q1.py_copy(), nrxn, ncols)
            c2 = _drain(q2.py_copy(), nrxn, ncols)
            m1, m2 = ModelQ(nrxn, ncols, model.cur), ModelQ(nrxn, ncols, model.cur)
            for i in range(ncols):
                k = model.cur + i
                exp = model.slots.get(k, [0.0] * nrxn)
                (t1, a), (t2, b) = c1[i], c2[i]
                if t1 != (k + frac) * dt or t2 != (k + frac) * dt:
                    res.fail(("partition_slot_time",), got=[t1, t2], expected=(k + frac) * dt)
                    break
                for r_ in range(nrxn):
                    if a[r_] + b[r_] != exp[r_] or a[r_] < 0 or b[r_] < 0 or a[r_] != int(a[r_]) or b[r_] != int(b[r_]):
                        res.fail(("partition_counts",), slot=i, part1=a, part2=b, original=exp, p=p)
                        break
                if res.fails:
                    break
                if any(a):
                    m1.slots[k] = list(a)
                if any(b):
                    m2.slots[k] = list(b)
            if res.fails:
                break
            res.label("op:partition")
            which = op[2] % 3
            if which == 2:
                shadows.append(("partition_part1", q1, m1))
                shadows.append(("partition_part2", q2, m2))
            else:
                shadows.append(("original_after_partition", q, model.copy()))
                shadows.append(("partition_other_part", q2 if which == 0 else q1, m2 if which == 0 else m1))
                q, model = (q1, m1) if which == 0 else (q2, m2)
                total_added = sum(sum(v) for v in model.slots.values())
                delivered = 0.0
        else:
            raise ValueError(kind)

    if not res.fails:
        # drain: everything added has been delivered exactly once at its model time
        for (t, got) in _drain(q, nrxn, ncols + 1):
            if t != (model.cur + frac) * dt:
                res.fail(("next_queue_time", "drain"), got=t, expected=(model.cur + frac) * dt)
                break
            exp = model.pop()
            if got != exp:
                res.fail(("delivery_counts", "drain"), time=t, got=got, expected=exp)
                break
            delivered += sum(got)
        if not res.fails and abs(delivered - total_added) > 0:
            res.fail(("lost_or_duplicated",), delivered=delivered, added=total_added)
    if not res.fails:
        for label, sq, sm in shadows:
            for (t, got) in _drain(sq, nrxn, ncols):
                exp_t = (sm.cur + frac) * dt
                exp = sm.pop()
                if t != exp_t or got != exp:
                    res.fail(("not_independent", label), time=t, expected_time=exp_t, got=got, expected=exp)
                    break
            if res.fails:
                break
    if wrapped_pending:
        res.label("wrap_with_pending")
    if shadows and diverged:
        res.label("copy_or_partition_then_diverge")
    res.nontrivial = wrapped_pending or (bool(shadows) and diverged)
    return res


@st.composite
def cases(draw, max_ops):
    nrxn = draw(st.integers(1, 2))
    ncols = draw(st.integers(2, 4))
    dt = draw(st.sampled_from([0.125, 0.25, 0.5, 1.0, 2.0, 4.0]))
    def build(tpl):
        kind, rxn, jj, off, amount, a, b = tpl
        if kind == "add":
            return ["add", rxn, jj, off, amount]
        if kind == "adv":
            return ["adv"]
        if kind == "copy":
            return ["copy", a % 2]
        return ["part", a, b]

    op = st.tuples(st.sampled_from(["add"] * 9 + ["adv"] * 8 + ["copy", "part", "part"]), st.integers(0, 1),
                   st.integers(-3, ncols + 3), st.sampled_from(OFFS), st.sampled_from([1, 1, 1, 2, 3]),
                   st.integers(0, 2), st.integers(0, 2)).map(build)
    lo = draw(st.sampled_from([1, 4, 12, 25]))
    ops = draw(st.lists(op, min_size=min(lo, max_ops), max_size=max_ops))
    return {"kind": "queue", "nrxn": nrxn, "ncols": ncols, "dt": dt, "t0_steps": draw(st.integers(0, 40)), "t0_frac": draw(st.sampled_from([0.0, 0.0, 0.25, 0.5, 0.125])),
            "seed": draw(st.integers(1, 2 ** 31)), "ops": ops}


def search(ctx):
    scale = ctx.job.get("scale", 1)
    n = (300000 if ctx.thorough else 20000) * scale
    ctx.run_hypothesis("queue_histories", cases(120 if ctx.thorough else 40), check, ctx.share(n))
