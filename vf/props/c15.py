"""C15 - the inference cost is the stated posterior on correctly aligned data."""
import math

import numpy as np
from hypothesis import strategies as st
from scipy.integrate import solve_ivp

from vf import gen, ref, spec as specmod
from vf.core import R
from vf.props.c16 import ref_logpdf, in_support


def log_prior(prior, theta_dict):
    lp = 0.0
    for name, v in theta_dict.items():
        pr = prior[name]
        fam, args = pr[0], [a for a in pr[1:] if a != "positive"]
        if "positive" in pr and v < 0:
            return -math.inf
        if not in_support(fam, args, v):
            return -math.inf
        lp += ref_logpdf(fam, args, v)
    return lp


def ref_sim(sp, x0, params, times):
    names = sp["species"]

    def f(t, x):
        d = ref.rhs(sp, {s: float(v) for s, v in zip(names, x)}, t, params=params)
        return [d[s] for s in names]
    sol = solve_ivp(f, (times[0], times[-1]), [x0[s] for s in names], method="DOP853", t_eval=times, rtol=1e-10, atol=1e-12)
    if not sol.success:
        return None
    return {s: sol.y[i] for i, s in enumerate(names)}


def build_setup(case, perm_meas=None, perm_traj=None, sim_type="deterministic"):
    import pandas as pd
    from bioscrape.inference_setup import InferenceSetup
    sp = case["spec"]
    with specmod.quiet():
        M = specmod.to_model(sp)
    trajs = case["trajectories"]
    order = list(range(len(trajs))) if perm_traj is None else perm_traj
    meas = case["measurements"] if perm_meas is None else [case["measurements"][i] for i in perm_meas]
    frames = []
    for i in order:
        tr = trajs[i]
        cols = {case["time_column"]: tr["times"]}
        for s in case["data_columns"]:
            cols[s] = tr["data"][s]
        frames.append(pd.DataFrame(cols))
    ics = [trajs[i]["ic"] for i in order]
    pcs = [trajs[i]["pc"] for i in order]
    if len(frames) == 1:
        exp_data, ic, pc = frames[0], ics[0], pcs[0]
    else:
        exp_data, ic, pc = frames, ics, ([p if p is not None else {} for p in pcs] if any(p is not None for p in pcs) else None)
    kw = dict(Model=M, exp_data=exp_data, measurements=list(meas), time_column=case["time_column"],
              params_to_estimate=list(case["estimate"]), prior={k: list(v) for k, v in case["prior"].items()},
              initial_conditions=ic, norm_order=case["norm"], sim_type=sim_type)
    if pc is not None:
        kw["parameter_conditions"] = pc
    if sim_type == "stochastic":
        kw["N_simulations"] = case.get("n_sim", 2)
    with specmod.quiet():
        return InferenceSetup(**kw), M


def ref_cost(case, theta):
    sp = case["spec"]
    td = dict(zip(case["estimate"], theta))
    lp = log_prior(case["prior"], td)
    if lp == -math.inf:
        return -math.inf
    total = 0.0
    p = case["norm"]
    for tr in case["trajectories"]:
        params = dict(sp["params"])
        params.update(td)
        if tr["pc"]:
            params.update(tr["pc"])
        x0 = dict(sp["x0"])
        x0.update(tr["ic"])
        sim = ref_sim(sp, x0, params, tr["times"])
        if sim is None:
            return None
        for s in case["measurements"]:
            total += float(np.sum(np.abs(np.array(tr["data"][s]) - sim[s]) ** p))
    return lp - total ** (1.0 / p)


def check(case):
    import warnings
    res = R()
    M_ = len(case["measurements"])
    N_ = len(case["trajectories"])
    tagM = "M>1" if M_ > 1 else "M=1"
    tagN = "N>1" if N_ > 1 else "N=1"
    leak = case.get("differing_condition_keys", False)
    res.label(tagM, tagN, "norm%d" % case["norm"], *(["differing_condition_keys"] if leak else []))
    with warnings.catch_warnings():
        warnings.simplefilter("ignore")
        with np.errstate(all="ignore"):
            if case["kind"] == "stochastic":
                return check_stochastic(case, res)
            IS, M = build_setup(case)
            # alignment of the data block
            LL = np.asarray(IS.LL_data)
            T_ = len(case["trajectories"][0]["times"])
            if LL.shape != (N_, T_, M_):
                res.fail(("data_shape",), got=list(LL.shape), expected=[N_, T_, M_])
                return res
            for n, tr in enumerate(case["trajectories"]):
                for m, s in enumerate(case["measurements"]):
                    if not np.array_equal(LL[n, :, m], np.array(tr["data"][s], dtype=float)):
                        res.fail(("data_alignment", tagM, tagN), trajectory=n, measurement=s, got=LL[n, :, m].tolist(),
                                 expected=list(tr["data"][s]))
                        return res
            values = []
            for theta in case["thetas"]:
                got = float(IS.cost_function(np.array(theta, dtype=float)))
                exp = ref_cost(case, theta)
                values.append(got)
                if exp is None:
                    continue
                if exp == -math.inf:
                    if got != -math.inf:
                        res.fail(("outside_support_not_minus_inf",), theta=theta, got=got)
                        return res
                    res.label("theta_outside_support")
                    continue
                if not (math.isfinite(got) and abs(got - exp) <= 1e-5 * (1 + abs(exp))):
                    sig = ("cost_value", tagM, tagN, "leak_class" if leak else "plain",
                           "conditions" if any(tr["pc"] for tr in case["trajectories"]) else "no_conditions")
                    res.fail(sig, theta=theta, got=got, expected=exp, norm=case["norm"])
                    return res
            # function of theta alone: a repeated theta gives the same value
            seen = {}
            for theta, v in zip(case["thetas"], values):
                key = tuple(theta)
                if key in seen and not (v == seen[key] or abs(v - seen[key]) <= 1e-9 * (1 + abs(v))):
                    res.fail(("history_dependence", "leak_class" if leak else "plain"), theta=theta, first=seen[key], later=v)
                    return res
                seen.setdefault(key, v)
            # permutation invariance
            if case.get("perm_meas"):
                IS2, _ = build_setup(case, perm_meas=case["perm_meas"])
                for theta, v in zip(case["thetas"], values):
                    v2 = float(IS2.cost_function(np.array(theta, dtype=float)))
                    if not (v2 == v or abs(v2 - v) <= 1e-9 * (1 + abs(v))):
                        res.fail(("measurement_order_dependence",), theta=theta, original=v, permuted=v2, perm=case["perm_meas"])
                        return res
            if case.get("perm_traj"):
                IS3, _ = build_setup(case, perm_traj=case["perm_traj"])
                for theta, v in zip(case["thetas"], values):
                    v3 = float(IS3.cost_function(np.array(theta, dtype=float)))
                    if not (v3 == v or abs(v3 - v) <= 1e-7 * (1 + abs(v))):
                        res.fail(("trajectory_order_dependence",), theta=theta, original=v, permuted=v3, perm=case["perm_traj"])
                        return res
    distinct_conditions = len({repr(sorted((tr["pc"] or {}).items())) + repr(sorted(tr["ic"].items())) for tr in case["trajectories"]}) > 1
    res.nontrivial = M_ >= 2 or (N_ >= 2 and distinct_conditions)
    return res


def check_stochastic(case, res):
    from bioscrape.random import py_seed_random
    from bioscrape.simulator import ModelCSimInterface, SSASimulator
    IS, M = build_setup(case, sim_type="stochastic")
    sp = case["spec"]
    p = case["norm"]
    nsim = case.get("n_sim", 2)
    for theta in case["thetas"]:
        td = dict(zip(case["estimate"], theta))
        lp = log_prior(case["prior"], td)
        py_seed_random(case["seed"])
        got = float(IS.cost_function(np.array(theta, dtype=float)))
        if lp == -math.inf:
            if got != -math.inf:
                res.fail(("outside_support_not_minus_inf", "stochastic"), theta=theta, got=got)
                return res
            continue
        # replay the identical sequence of seeded SSA runs on a fresh model
        py_seed_random(case["seed"])
        total = 0.0
        for tr in case["trajectories"]:
            params = dict(sp["params"]); params.update(td)
            if tr["pc"]:
                params.update(tr["pc"])
            x0 = dict(sp["x0"]); x0.update(tr["ic"])
            sp2 = dict(sp, params=params, x0=x0)
            with specmod.quiet():
                M2 = specmod.to_model(sp2)
                I2 = ModelCSimInterface(M2)
            idx = M2.get_species2index()
            for _ in range(nsim):
                r = SSASimulator().py_simulate(I2, np.array(tr["times"], dtype=float)).py_get_result()
                for s in case["measurements"]:
                    total += float(np.sum(np.abs(np.array(tr["data"][s]) - r[:, idx[s]]) ** p))
        exp = lp - total ** (1.0 / p) / nsim
        if not (math.isfinite(got) and abs(got - exp) <= 1e-9 * (1 + abs(exp))):
            res.fail(("stochastic_cost_value", "M>1" if len(case["measurements"]) > 1 else "M=1",
                      "leak_class" if case.get("differing_condition_keys") else "plain"), theta=theta, got=got, expected=exp)
            return res
        if case.get("perm_meas"):
            IS2, _ = build_setup(case, perm_meas=case["perm_meas"], sim_type="stochastic")
            py_seed_random(case["seed"])
            v2 = float(IS2.cost_function(np.array(theta, dtype=float)))
            if abs(v2 - got) > 1e-9 * (1 + abs(got)):
                res.fail(("measurement_order_dependence", "stochastic"), theta=theta, original=got, permuted=v2)
                return res
    res.label("stochastic_cost")
    res.nontrivial = len(case["measurements"]) >= 2 or len(case["trajectories"]) >= 2
    return res


# ---------------------------------------------------------------------------------------------------
@st.composite
def cases(draw):
    stochastic = draw(st.integers(0, 5)) == 0
    nsp = draw(st.integers(2, 4))
    species = ["A", "B", "C", "D"][:nsp]
    params = {}
    reactions = []

    def par(val):
        name = f"k{len(params)}"
        params[name] = val
        return name
    for _ in range(draw(st.integers(1, 4))):
        a, c = draw(st.sampled_from(species)), draw(st.sampled_from(species))
        shape = draw(st.sampled_from(["conv", "deg", "inflow", "bi"]))
        k = par(draw(gen.logfl(0.05, 2)))
        if shape == "conv":
            reactions.append({"r": [a], "p": [c] if c != a else [], "type": "massaction", "pd": {"k": k}, "delay": None})
        elif shape == "deg":
            reactions.append({"r": [a], "p": [], "type": "massaction", "pd": {"k": k}, "delay": None})
        elif shape == "inflow":
            reactions.append({"r": [], "p": [c], "type": "massaction", "pd": {"k": k}, "delay": None})
        else:
            params[k] = min(params[k], 0.3)
            reactions.append({"r": [a, c], "p": [a] if draw(st.booleans()) else [], "type": "massaction", "pd": {"k": k}, "delay": None})
    x0 = {s: float(draw(st.integers(0, 15))) for s in species}
    sp = {"species": species, "x0": x0, "params": params, "reactions": reactions, "rules": []}
    pnames = sorted(params)
    estimate = draw(st.lists(st.sampled_from(pnames), min_size=1, max_size=min(3, len(pnames)), unique=True))
    others = [p for p in pnames if p not in estimate]
    prior = {}
    for p in estimate:
        fam = draw(st.sampled_from(["uniform", "gaussian", "log-uniform"]))
        if fam == "uniform":
            pr = ["uniform", 0.0, 3.0]
        elif fam == "gaussian":
            pr = ["gaussian", draw(gen.nice(0.1, 2)), draw(gen.nice(0.2, 3))]
        else:
            pr = ["log-uniform", 0.01, 5.0]
        if draw(st.booleans()):
            pr.append("positive")
        prior[p] = pr
    N = draw(st.sampled_from([1, 1, 2, 3, 4]))
    T = draw(st.integers(5 if stochastic else 3, 12))      # (T != N keeps the stochastic data container unambiguous)
    M = draw(st.integers(1, min(3, nsp)))
    measurements = list(draw(st.permutations(species)))[:M]
    data_columns = list(species)
    leak = N >= 2 and bool(others) and draw(st.integers(0, 9)) == 0
    cond_keys = draw(st.lists(st.sampled_from(others), max_size=2, unique=True)) if others and draw(st.booleans()) else []
    trajectories = []
    for n in range(N):
        t0 = draw(st.sampled_from([0.0, 0.0, 0.5, 2.0]))
        incs = [draw(st.sampled_from([0.1, 0.25, 0.5, 1.0])) for _ in range(T - 1)]
        times = [t0]
        for d in incs:
            times.append(round(times[-1] + d, 6))
        data = {}
        for s in data_columns:
            if stochastic:
                data[s] = [float(draw(st.integers(0, 20))) for _ in range(T)]
            else:
                data[s] = [draw(gen.nice(0, 20)) for _ in range(T)]
        ic = {s: float(draw(st.integers(0, 15))) for s in species if draw(st.booleans())}
        keys = cond_keys
        if leak and n % 2 == 1:
            keys = [k for k in others if k not in cond_keys][:1]
        pc = {k: draw(gen.logfl(0.05, 2)) for k in keys} or None
        trajectories.append({"times": times, "data": data, "ic": ic, "pc": pc})
    thetas = []
    for _ in range(draw(st.integers(1, 6 if not stochastic else 2))):
        if thetas and draw(st.integers(0, 3)) == 0:
            thetas.append(list(draw(st.sampled_from(thetas))))
            continue
        th = []
        for p in estimate:
            if draw(st.integers(0, 6)) == 0:
                # a negative rate constant is only generated where the prior rejects it (it is not a valid model input)
                rejects_negative = prior[p][0] in ("uniform", "log-uniform") or "positive" in prior[p]
                th.append(draw(st.sampled_from([-0.5, 7.5, -2.0] if rejects_negative else [7.5, 4.0])))
            else:
                th.append(draw(gen.logfl(0.02, 2.5)))
        thetas.append(th)
    case = {"kind": "stochastic" if stochastic else "deterministic", "spec": sp, "estimate": estimate, "prior": prior,
            "measurements": measurements, "data_columns": data_columns, "time_column": draw(st.sampled_from(["time", "T"])),
            "norm": draw(st.sampled_from([1, 2, 2, 3])), "trajectories": trajectories, "thetas": thetas,
            "differing_condition_keys": leak, "seed": draw(st.integers(1, 2 ** 40)), "n_sim": 2}
    if M >= 2 and draw(st.booleans()):
        perm = list(draw(st.permutations(list(range(M)))))
        if perm != list(range(M)):
            case["perm_meas"] = perm
    if N >= 2 and draw(st.booleans()):
        perm = list(draw(st.permutations(list(range(N)))))
        if perm != list(range(N)):
            case["perm_traj"] = perm
    return case


def search(ctx):
    scale = ctx.job.get("scale", 1)
    ctx.run_hypothesis("cost", cases(), check, ctx.share((40000 if ctx.thorough else 4000) * scale))
