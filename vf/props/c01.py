"""C01 - built-in rate laws equal their documented closed forms (4 modes x 3 paths)."""
import itertools
import math

import numpy as np
from hypothesis import strategies as st

from vf import gen, ref, spec as specmod
from vf.core import R

SPECIES = ["A", "B", "G"]
EXTRA = ["U0", "U1"]


def multisets():
    """Every reactant multiset of order 0..4 over <= 3 species (as sorted tuples of species names)."""
    out = []
    for order in range(0, 5):
        for combo in itertools.combinations_with_replacement(SPECIES, order):
            out.append(list(combo))
    return out


def _close(a, b):
    if not (math.isfinite(a) and math.isfinite(b)):
        return a == b or (math.isnan(a) and math.isnan(b))
    return abs(a - b) <= 1e-10 * max(abs(a), abs(b)) + 1e-300


def _build(sp, share=False):
    with specmod.quiet():
        M = specmod.to_model(sp, share_dicts=share)
        from bioscrape.simulator import ModelCSimInterface, SafeModelCSimInterface
        I = ModelCSimInterface(M)
        S = SafeModelCSimInterface(M)
    return M, I, S


def _full_complement(sp, state, stochastic=True):
    """For each reaction: does the state hold every species the reaction consumes (immediately or after delay)?  The safe
    interface switches a reaction off below that complement in the stochastic modes only; in the deterministic and
    volume modes states are concentrations and its rates are the closed forms wherever the consumed species are present
    at all (> 0)."""
    out = []
    S, Sd = ref.stoich(sp)
    for j, rx in enumerate(sp["reactions"]):
        ok = True
        for s in sp["species"]:
            need = 0
            a, b = S[s][j], Sd[s][j]
            if a < 0 and b < 0:
                need = -(a + b)
            elif a < 0 or b < 0:
                need = -min(a, b)
            if (state[s] < need) if stochastic else (need > 0 and state[s] <= 0):
                ok = False
        out.append(ok)
    return out


def _compare(res, sp, M, I, S, state, V, t, shape_tag):
    x = specmod.state_vector(M, state)
    p = np.array(M.get_parameter_values(), dtype=float)
    props = M.get_propensities()
    full_stoch = _full_complement(sp, state)
    full_det = _full_complement(sp, state, stochastic=False)
    n_eval = 0
    # the general mass-action class constructed directly ("a bare propensity object"): a model only uses it from order 3
    # on (orders 0..2 are dispatched to specialised classes), the class itself accepts every order 0..4
    from bioscrape.types import MassActionPropensity
    s2i = M.get_species2index()
    bare = {}
    for j, rx in enumerate(sp["reactions"]):
        if rx["type"] == "massaction":
            k = rx["pd"]["k"]
            kval = float(sp["params"][k]) if isinstance(k, str) else float(k)
            b = MassActionPropensity()
            with specmod.quiet():
                b.initialize({"species": "*".join(rx["r"]), "k": "k"}, dict(s2i), {"k": 0})
            bare[j] = (b, np.array([kval], dtype=float))
    for mode in ref.MODES:
        full = full_stoch if mode in ("stoch", "stochvol") else full_det
        exp = [ref.rate(sp, rx, state, t, mode, V) for rx in sp["reactions"]]
        got_iface = I.py_verif_compute_propensities(x.copy(), t, mode, V)
        got_safe = S.py_verif_compute_propensities(x.copy(), t, mode, V)
        for j, rx in enumerate(sp["reactions"]):
            pr = props[j]
            if mode == "det":
                g = pr.py_get_propensity(x, p, t)
            elif mode == "vol":
                g = pr.py_get_volume_propensity(x, p, V, t)
            elif mode == "stoch":
                g = pr.py_verif_stochastic_propensity(x, p, t)
            else:
                g = pr.py_verif_stochastic_volume_propensity(x, p, V, t)
            order = len(rx["r"]) if rx["type"] == "massaction" else None
            rep = rx["type"] == "massaction" and len(set(rx["r"])) < len(rx["r"])
            if rx["type"] == "massaction":
                tag = ("massaction_order3plus" if order >= 3 else f"massaction_order{order}") + ("_repeated" if rep else "")
            else:
                tag = rx["type"]
            object_failed = False
            paths = [("propensity_object", g), ("interface", got_iface[j]), ("safe_interface", got_safe[j])]
            if j in bare:
                b, bp = bare[j]
                if mode == "det":
                    gb = b.py_get_propensity(x, bp, t)
                elif mode == "vol":
                    gb = b.py_get_volume_propensity(x, bp, V, t)
                elif mode == "stoch":
                    gb = b.py_verif_stochastic_propensity(x, bp, t)
                else:
                    gb = b.py_verif_stochastic_volume_propensity(x, bp, V, t)
                paths.append(("general_massaction_object", gb))
            for path, val in paths:
                if path == "safe_interface" and not full[j]:
                    continue
                n_eval += 1
                if not _close(float(val), exp[j]):
                    if path == "propensity_object":
                        object_failed = True
                    elif object_failed:
                        continue      # same root cause as the bare rate object: one signature, not three
                    res.fail(("rate", tag, mode, path), reaction=rx, state=state, volume=V, time=t,
                             got=float(val), expected=exp[j], params=sp["params"])
    return n_eval


def check(case):
    res = R()
    if case["kind"] == "grid":
        typ = case["type"]
        sp = {"species": case["decl"], "x0": {s: 0 for s in case["decl"]}, "params": {}, "rules": []}
        if typ == "massaction":
            rx = {"r": case["reactants"], "p": case.get("products", []), "type": "massaction", "pd": {"k": case["k"]},
                  "delay": None}
        else:
            pd = {"k": case["k"], "K": case["K"], "n": case["n"], "s1": case["s1"]}
            if typ.startswith("proportional"):
                pd["d"] = case["d"]
            rx = {"r": case["reactants"], "p": case.get("products", []), "type": typ, "pd": pd, "delay": None}
        sp["reactions"] = [rx]
        M, I, S = _build(sp)
        m = case["states_max"]
        used = sorted(set(case["reactants"]) | ({case["s1"]} if "s1" in case else set()) | ({case["d"]} if "d" in case else set()))
        n = 0
        for vals in itertools.product(range(m + 1), repeat=len(used)):
            state = {s: 0.0 for s in sp["species"]}
            for s, v in zip(used, vals):
                state[s] = float(v)
            for s in sp["species"]:
                if s not in used:
                    state[s] = 2.0
            n += _compare(res, sp, M, I, S, state, case["V"], 0.0, "grid")
        order = len(case["reactants"])
        res.nontrivial = (typ != "massaction") or order >= 2 or case["V"] != 1
        res.label(f"grid:{typ}", f"grid:order{order}" if typ == "massaction" else f"grid:n{case['n']}")
        res.label(*([f"grid_evals"] * 0))
        return res
    if case["kind"] == "gen":
        sp = case["spec"]
        M, I, S = _build(sp, share=bool(case.get("share_dicts")))
        if case.get("share_dicts"):
            res.label("gen:shared_parameter_dictionary")
        for pt in case["points"]:
            _compare(res, sp, M, I, S, pt["state"], pt["V"], pt["t"], "gen")
        nt = False
        for rx in sp["reactions"]:
            res.label("gen:" + rx["type"])
            if rx["type"] == "massaction":
                res.label(f"gen:order{len(rx['r'])}")
                if len(rx["r"]) >= 2 or len(set(rx["r"])) < len(rx["r"]):
                    nt = True
            else:
                nval = ref.pval(sp, rx["pd"]["n"])
                if nval != int(nval):
                    nt = True
                    res.label("gen:fractional_n")
            consumed = set(rx["r"]) | set((rx.get("delay") or {}).get("r", []))
            if consumed >= set(sp["species"]):
                res.label("gen:reaction_consumes_every_species")
        if any(pt["V"] != 1 for pt in case["points"]):
            nt = True
        res.nontrivial = nt
        return res
    raise ValueError(case["kind"])


def grid_cases(states_max, thorough):
    cases = []
    Vs = [0.5, 1.0, 2.0]
    for ms in multisets():
        for V in Vs:
            for decl in (["A", "B", "G", "U0"], ["U0", "G", "B", "A"]):
                cases.append({"kind": "grid", "type": "massaction", "reactants": ms, "products": ["U0"], "k": 1.5,
                              "V": V, "states_max": states_max, "decl": decl})
    for typ in ref.HILL_TYPES:
        for n in (1, 2, 3):
            for V in Vs:
                for s1, d in (("A", "B"), ("B", "A")):
                    for reactants in ([], [s1], ["G"]):
                        c = {"kind": "grid", "type": typ, "reactants": reactants, "products": ["U0"], "k": 1.5, "K": 2.0,
                             "n": float(n), "s1": s1, "V": V, "states_max": states_max,
                             "decl": ["A", "B", "G", "U0"]}
                        if typ.startswith("proportional"):
                            c["d"] = d
                        cases.append(c)
    return cases


@st.composite
def gen_cases(draw):
    nsp = draw(st.integers(1, 4))
    species = draw(st.permutations(["A", "B", "G", "U0", "U1"][:max(nsp, 2) + draw(st.integers(0, 1))]))
    species = list(species)
    b = gen.Builder(draw, species)
    nrx = draw(st.integers(1, 4))
    for _ in range(nrx):
        typ = draw(st.sampled_from(["massaction"] * 3 + list(ref.HILL_TYPES)))
        products = draw(st.lists(st.sampled_from(species), max_size=2))
        if typ == "massaction":
            reactants = draw(st.lists(st.sampled_from(species), min_size=0, max_size=4))
            rx = gen.massaction(b, reactants, products, k=b.value_entry(gen.logfl(1e-3, 1e3)))
        else:
            s1 = draw(st.sampled_from(species))
            d = draw(st.sampled_from(species))
            reactants = draw(st.lists(st.sampled_from(species), min_size=0, max_size=2))
            rx = gen.hill(b, typ, reactants, products, s1, d)
            rx["pd"]["k"] = b.value_entry(gen.logfl(1e-3, 1e3))
            rx["pd"]["K"] = b.value_entry(gen.logfl(1e-3, 1e3))
        if draw(st.integers(0, 5)) == 0:
            rx["delay"] = gen.draw_delay(b, species)
        b.reactions.append(rx)
    points = []
    for _ in range(draw(st.integers(2, 5))):
        state = {}
        for s in species:
            state[s] = draw(st.one_of(st.integers(0, 50).map(float), gen.fl(0, 50), st.sampled_from([0.0, 1e-9, 1.0, 2.0])))
        V = draw(st.one_of(st.sampled_from([1.0, 0.5, 2.0]), gen.logfl(0.1, 10)))
        points.append({"state": state, "V": V, "t": draw(st.sampled_from([0.0, 1.5]))})
    sp = b.spec({s: 1.0 for s in species})
    share = False
    ma = [rx for rx in sp["reactions"] if rx["type"] == "massaction"]
    if len(ma) >= 2 and draw(st.integers(0, 3)) == 0:
        # user code often re-uses one parameter dictionary for several reactions ({'k': 'kdeg'} for every degradation):
        # all mass-action reactions get the same named rate constant and are built from the very same dict object
        sp["params"]["kshared"] = draw(gen.logfl(1e-3, 1e3))
        for rx in ma:
            rx["pd"] = {"k": "kshared"}
        share = True
    return {"kind": "gen", "spec": sp, "points": points, "share_dicts": share}


def search(ctx):
    scale = ctx.job.get("scale", 1)
    ctx.run_cases("grid", grid_cases(4 if ctx.thorough else 3, ctx.thorough), check)
    ctx.run_hypothesis("generated", gen_cases(), check, ctx.share((80000 if ctx.thorough else 12000) * scale))
