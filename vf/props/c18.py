"""C18 - reported Jacobians and parameter sensitivities match analytic derivatives."""
import math

import mpmath
import numpy as np
from hypothesis import strategies as st

from vf import gen, ref, spec as specmod
from vf.core import R

METHODS = ["fourth_order_central_difference", "central_difference", "forward_difference", "backward_difference"]
H = 0.01
_mp = mpmath.mp.clone()
_mp.dps = 40


def mp_rate(sp, rx, state, params):
    """Closed-form deterministic rate in mp arithmetic (independent re-statement of the documented forms)."""
    typ, pd = rx["type"], rx["pd"]

    def pv(e):
        return params[e] if isinstance(e, str) else _mp.mpf(e)

    if typ == "massaction":
        v = pv(pd["k"])
        for s in rx["r"]:
            v = v * state[s]
        return v
    if typ in ref.HILL_TYPES:
        k, K, n = pv(pd["k"]), pv(pd["K"]), pv(pd["n"])
        hterm = (state[pd["s1"]] / K) ** n
        v = k * hterm / (1 + hterm) if "positive" in typ else k / (1 + hterm)
        if typ.startswith("proportional"):
            v = v * state[pd["d"]]
        return v
    env = dict(params)
    env.update(state)
    return ref.eval_tree(rx["tree"], env, _T[0], 1.0, mp=_mp)


_T = [0.0]      # the time at which the rate equations are differentiated (set per case)


def mp_rhs(sp, state, params):
    S, Sd = ref.stoich(sp)
    if sp.get("rules"):
        # the rate equations of a model with repeated assignment rules: rule-assigned species are functions of the
        # other species and the parameters (rules applied in declaration order, then the rates)
        state = dict(state)
        for rl in sp["rules"]:
            env = dict(params)
            env.update(state)
            state[rl["dest"]] = ref.eval_tree(rl["tree"], env, _T[0], 1.0, mp=_mp)
    rates = [mp_rate(sp, rx, state, params) for rx in sp["reactions"]]
    return [sum((S[s][j] + Sd[s][j]) * rates[j] for j in range(len(rates))) for s in sp["species"]], rates


def _bound(fun, x0, lo, hi, order):
    """2 x max |d^order fun / dx^order| over a 9-point grid of [lo, hi]."""
    m = 0.0
    for i in range(9):
        x = lo + (hi - lo) * i / 8
        m = max(m, abs(float(_mp.diff(fun, x, order))))
    return 2.0 * m


def _scheme_bound(fun, x0, method):
    if method == "forward_difference":
        return H / 2 * _bound(fun, x0, x0, x0 + H, 2)
    if method == "backward_difference":
        return H / 2 * _bound(fun, x0, x0 - H, x0, 2)
    if method == "central_difference":
        return H ** 2 / 6 * _bound(fun, x0, x0 - H, x0 + H, 3)
    return H ** 4 / 30 * _bound(fun, x0, x0 - 2 * H, x0 + 2 * H, 5)


def check(case):
    from bioscrape.analysis import py_get_jacobian, py_get_sensitivity_to_parameter
    res = R()
    sp, method = case["spec"], case["method"]
    tq = float(case.get("time", 0.0))
    _T[0] = tq
    tkw = {"time": tq} if tq != 0.0 else {}
    names = sp["species"]
    with specmod.quiet():
        M = specmod.to_model(sp)
    s2i = M.get_species2index()
    order = sorted(names, key=lambda s: s2i[s])
    x = np.array([case["state"][s] for s in order], dtype=float)
    if case.get("warmup"):
        # the same model object was analysed before, at other parameter values: only the current values may matter
        res.label("model_analysed_before_at_other_parameter_values")
        orig = {p: float(v) for p, v in M.get_parameter_dictionary().items()}
        with specmod.quiet():
            M.set_params({p: 1.7 * v + 0.3 for p, v in orig.items()})
            if case["warmup"] == "jacobian":
                py_get_jacobian(M, x, method=method)
            else:
                py_get_sensitivity_to_parameter(M, x, sorted(sp["params"])[0], method=method)
            M.set_params(orig)
    before = dict(M.get_parameter_dictionary())
    mpstate = {s: _mp.mpf(case["state"][s]) for s in names}
    mpparams = {p: _mp.mpf(v) for p, v in sp["params"].items()}
    f0, rates0 = mp_rhs(sp, mpstate, mpparams)
    S, Sd = ref.stoich(sp)
    cancel = [2e-13 * sum(abs((S[s][j] + Sd[s][j]) * float(rates0[j])) for j in range(len(rates0))) / H for s in names]
    with specmod.quiet():
        if case["what"] == "jacobian":
            J = np.asarray(py_get_jacobian(M, x, method=method, **tkw), dtype=float)
            J2 = np.asarray(py_get_jacobian(M, x, method=method, **tkw), dtype=float)
        else:
            J = np.asarray(py_get_sensitivity_to_parameter(M, x, case["param"], method=method, **tkw), dtype=float)
            J2 = np.asarray(py_get_sensitivity_to_parameter(M, x, case["param"], method=method, **tkw), dtype=float)
    after = dict(M.get_parameter_dictionary())
    if any(before[k] != after.get(k) for k in before) or set(before) != set(after):
        ch = [k for k in before if before[k] != after.get(k)]
        res.fail(("parameters_changed", case["what"], method), changed=ch, before=[before[k] for k in ch],
                 after=[after.get(k) for k in ch])
        return res
    if not np.array_equal(J, J2):
        res.fail(("not_repeatable", case["what"], method), first=J.tolist(), second=J2.tolist())
        return res
    n = len(names)
    nonlinear = False
    worst = 0.0
    if case["what"] == "jacobian":
        if J.shape != (n, n):
            res.fail(("jacobian_shape",), got=list(J.shape), expected=[n, n])
            return res
        for jj, sj in enumerate(order):
            def col(xv, sj=sj):
                st_ = dict(mpstate)
                st_[sj] = xv
                return mp_rhs(sp, st_, mpparams)[0]
            for ii, si in enumerate(order):
                comp = names.index(si)
                fun = lambda xv, comp=comp: col(xv)[comp]
                exact = float(_mp.diff(fun, mpstate[sj], 1))
                tol = _scheme_bound(fun, float(mpstate[sj]), method) + 5e-10 + cancel[comp]
                if abs(float(_mp.diff(fun, mpstate[sj], 3))) > 1e-6:
                    nonlinear = True
                worst = max(worst, abs(J[ii, jj] - exact) / tol)
                if abs(J[ii, jj] - exact) > tol:
                    # transposed entry matching instead is a hint for the signature
                    hint = "transposed" if abs(J[jj, ii] - exact) <= tol and ii != jj else "value"
                    res.fail(("jacobian_entry", method, hint), d_species=si, wrt=sj, got=float(J[ii, jj]), expected=exact,
                             tolerance=tol, state=case["state"])
                    return res
    else:
        p = case["param"]
        if J.shape not in ((n,), (n, 1)):
            res.fail(("sensitivity_shape",), got=list(J.shape), expected=[n])
            return res
        J = J.reshape(n)

        def colp(pv):
            pp = dict(mpparams)
            pp[p] = pv
            return mp_rhs(sp, mpstate, pp)[0]
        for ii, si in enumerate(order):
            comp = names.index(si)
            fun = lambda pv, comp=comp: colp(pv)[comp]
            exact = float(_mp.diff(fun, mpparams[p], 1))
            tol = _scheme_bound(fun, float(mpparams[p]), method) + 5e-10 + cancel[comp]
            if abs(float(_mp.diff(fun, mpparams[p], 2))) > 1e-6:
                nonlinear = True
            worst = max(worst, abs(J[ii] - exact) / tol)
            if abs(J[ii] - exact) > tol:
                res.fail(("sensitivity_entry", method), d_species=si, parameter=p, got=float(J[ii]), expected=exact,
                         tolerance=tol, state=case["state"])
                return res
    if tq != 0.0:
        res.label("at_nonzero_time")
    if sp.get("rules"):
        res.label("rule_assigned_species_in_a_rate")
    res.label("what:" + case["what"], "method:" + method, *["type:" + t for t in sorted({rx["type"] for rx in sp["reactions"]})])
    if any(rx.get("signed") for rx in sp["reactions"]):
        res.label("rate_that_changes_sign")
    res.label("err/bound<0.01" if worst < 0.01 else ("err/bound<0.3" if worst < 0.3 else "err/bound>=0.3"))
    asym = case["what"] == "jacobian" and n >= 2 and not np.allclose(J, J.T)
    if asym:
        res.label("non_symmetric_jacobian")
    res.nontrivial = nonlinear and (asym or case["what"] == "sensitivity")
    return res


# ---------------------------------------------------------------------------------------------------
@st.composite
def cases(draw):
    species = draw(gen.species_names(1, 4))
    b = gen.Builder(draw, species)
    for _ in range(draw(st.integers(1, 4))):
        typ = draw(st.sampled_from(["massaction", "massaction", "hill", "general"]))
        prods = draw(st.lists(st.sampled_from(species), max_size=2))
        if typ == "massaction":
            rx = gen.massaction(b, draw(st.lists(st.sampled_from(species), max_size=4)), prods,
                                k=b.value_entry(gen.logfl(0.1, 10)))
        elif typ == "hill":
            ht = draw(st.sampled_from(list(ref.HILL_TYPES)))
            rx = gen.hill(b, ht, draw(st.lists(st.sampled_from(species), max_size=1)), prods,
                          draw(st.sampled_from(species)), draw(st.sampled_from(species)))
            rx["pd"]["k"] = b.value_entry(gen.logfl(0.1, 10))
            rx["pd"]["K"] = b.value_entry(gen.logfl(0.5, 10))
            rx["pd"]["n"] = b.value_entry(st.one_of(st.sampled_from([1.0, 2.0, 3.0]), gen.nice(1.0, 3.0)))
        elif draw(st.integers(0, 2)) == 0:
            # a smooth rate that takes either sign (lumped reversible law): its derivatives are as well defined as any
            a, c = draw(st.sampled_from(species)), draw(st.sampled_from(species))
            kf = gen.sym(b.new_param(draw(gen.logfl(0.1, 10))))
            kr = gen.sym(b.new_param(draw(gen.logfl(0.1, 10))))
            back = gen.sym(c) if c != a else ["mul", gen.sym(a), gen.sym(a)]
            rx = gen.general([a], prods, ["sub", ["mul", kf, gen.sym(a)], ["mul", kr, back]])
            rx["signed"] = True
        else:
            rx = gen.general(draw(st.lists(st.sampled_from(species), max_size=2)), prods,
                             gen.positive_tree(b, species, smooth=True, time=True))
        if draw(st.integers(0, 4)) == 0 and rx["p"]:
            rx["delay"] = {"type": "fixed", "r": [], "p": [rx["p"].pop()], "pd": {"delay": 1.0}}
        b.reactions.append(rx)
    if draw(st.integers(0, 2)) == 0:
        # a species assigned by a repeated rule (from a parameter and another species) that catalyses one more reaction:
        # derivatives flow through the rule
        a, c = draw(st.sampled_from(species)), draw(st.sampled_from(species))
        pr = b.new_param(draw(gen.logfl(0.2, 5)))
        tree = ["add", ["mul", gen.sym(pr), gen.sym(a)], gen.num(0.5)]
        b.species.append("Rq")
        extra = []
        if draw(st.booleans()):
            # a second rule listed *before* the one it reads from: in one pass it sees the incoming value of Rq (the
            # rate equations are "rules once in declaration order, then the rates" - evaluated afresh at every point)
            wtree = ["add", ["mul", gen.sym("Rq"), gen.sym("Rq")], gen.num(0.25)]
            b.species.append("Rw")
            b.rules.append({"type": "assignment", "eq": f"Rw = {ref.show(wtree)}", "freq": "repeated", "tree": wtree, "dest": "Rw"})
            b.reactions.append(gen.massaction(b, [a, "Rw"], ["Rw"], k=b.value_entry(gen.logfl(0.1, 10))))
            extra = ["Rw"]
        b.rules.append({"type": "assignment", "eq": f"Rq = {ref.show(tree)}", "freq": "repeated", "tree": tree, "dest": "Rq"})
        b.reactions.append(gen.massaction(b, [c, "Rq"], ["Rq"], k=b.value_entry(gen.logfl(0.1, 10))))
        species = species + ["Rq"] + extra
    sp = b.spec({s: 1.0 for s in species})
    # every numeric entry becomes a named parameter so that each one can be addressed by name
    k = 0
    for rx in sp["reactions"]:
        if rx["type"] == "general":
            continue
        for key in list(rx["pd"]):
            if key in ("k", "K", "n") and not isinstance(rx["pd"][key], str):
                name = f"pp{k}"
                k += 1
                sp["params"][name] = rx["pd"][key]
                rx["pd"][key] = name
    for p in list(sp["params"]):
        sp["params"][p] = max(0.1, float(sp["params"][p]))
    # a rate constant in the thousands now and then (parameters are bounded below only): the difference step is then
    # small against the value it perturbs
    big = None
    kparams = sorted({rx["pd"]["k"] for rx in sp["reactions"] if rx["type"] != "general" and isinstance(rx["pd"].get("k"), str)})
    if kparams and draw(st.integers(0, 4)) == 0:
        big = draw(st.sampled_from(kparams))
        sp["params"][big] = float(sp["params"][big]) * draw(st.sampled_from([1e3, 2.5e3, 1e4]))
    state = {s: draw(gen.nice(0.5, 10)) for s in species}
    what = draw(st.sampled_from(["jacobian", "sensitivity"]))
    case = {"kind": "derivative", "spec": sp, "state": state, "what": what, "method": draw(st.sampled_from(METHODS))}
    if what == "sensitivity":
        used = sorted(sp["params"])
        case["param"] = big if (big and draw(st.booleans())) else draw(st.sampled_from(used))
    case["warmup"] = draw(st.sampled_from([None, None, "jacobian", "sensitivity"])) if sp["params"] else None
    case["time"] = draw(st.sampled_from([0.0, 0.0, 0.75, 4.0]))     # the rate equations may depend on time explicitly
    return case


def search(ctx):
    scale = ctx.job.get("scale", 1)
    ctx.run_hypothesis("derivatives", cases(), check, ctx.share((60000 if ctx.thorough else 6000) * scale))
