"""C02 - rate and rule expressions evaluate to their mathematical meaning."""
import math

import mpmath
import numpy as np
from hypothesis import strategies as st

from vf import gen, ref, spec as specmod
from vf.core import R, HarnessError

CLASH = ["C", "O", "Q", "N", "I", "E", "S"]
SPECIES_NAMES = ["A", "B", "x_1", "mRNA", "G2", "a_b", "X_tot", "y0"] + CLASH
PARAM_NAMES = ["k", "k_f", "K_d", "n", "p2", "beta_1", "v_max", "c0_", "kk"] + CLASH
UNKNOWN_NAMES = ["zz", "q_9", "Wx", "foo_bar", "Y", "kz1"]
UNSUPPORTED = ["sin", "cos", "floor", "ceiling", "sqrt", "mod", "tanh"]

_mp = mpmath.mp.clone()
_mp.dps = 50


# ---------------------------------------------------------------------------------------------------
# generator
def _numbers():
    ints = st.integers(0, 6).map(lambda i: ["num", float(i), str(i)])
    decs = st.sampled_from(["0.5", "2.5", "0.25", "1.75", "3.2", "0.1", "10.0", "0.75"]).map(lambda s: ["num", float(s), s])
    enot = st.sampled_from(["1e-1", "2.5E0", "5e-2", "1.5e1", "3E-1", "2e0"]).map(lambda s: ["num", float(s), s])
    return st.one_of(ints, ints, decs, decs, enot)


def _tree(draw, species, params, depth):
    if depth <= 0 or draw(st.integers(0, 9)) < (1 if depth >= 3 else 3):
        kind = draw(st.sampled_from(["num", "num", "species", "species", "species", "param", "param", "param", "t", "vol"]))
        if kind == "num":
            return draw(_numbers())
        if kind == "species":
            return ["sym", draw(st.sampled_from(species))]
        if kind == "param":
            return ["sym", draw(st.sampled_from(params))]
        return ["t"] if kind == "t" else ["vol"]
    op = draw(st.sampled_from(["add", "add", "sub", "mul", "mul", "div", "div", "neg", "pow", "pow", "exp", "log", "abs",
                               "step", "min", "max"]))

    def sub():
        return _tree(draw, species, params, depth - 1)

    if op in ("add", "mul", "min", "max"):
        return [op] + [sub() for _ in range(draw(st.sampled_from([2, 2, 2, 3])))]
    if op in ("sub", "div"):
        return [op, sub(), sub()]
    if op == "pow":
        kind = draw(st.integers(0, 4))
        if kind == 4:
            # an exponent written as a ratio of integer literals, X^(1/2): exact Rational inside the parser
            a, b_ = draw(st.sampled_from([(1, 2), (3, 2), (-1, 2), (2, 3), (1, 3), (5, 2), (-3, 2), (1, 4)]))
            expo = ["div", ["num", float(a), str(a)], ["num", float(b_), str(b_)]]
        elif kind > 0:
            e = draw(st.sampled_from([2.0, 3.0, -1.0, -2.0, 0.5, 1.5, 0.0, 1.0]))
            txt = ref._num_str(e)
            expo = ["num", e, txt]
        else:
            expo = _tree(draw, species, params, min(depth - 1, 1))
        return ["pow", sub(), expo]
    if op == "step":
        # keep Heaviside arguments generically away from 0: a sub-tree minus a non-round constant
        return ["step", ["sub", sub(), ["num", draw(st.sampled_from([0.37, 1.13, 2.71, -0.61])), None][:2]]]
    return [op, sub()]


def _has_symbols(tree):
    return tree[0] in ("sym", "t", "vol") or (tree[0] != "num" and any(_has_symbols(a) for a in tree[1:]))


def _fractional_exponent(expo):
    return not (expo[0] == "num" and float(expo[1]) == int(float(expo[1])))


def _contains_fractional_power(tree):
    if tree[0] in ("num", "sym", "t", "vol"):
        return False
    if tree[0] == "pow" and _fractional_exponent(tree[2]):
        return True
    return any(_contains_fractional_power(a) for a in tree[1:])


def _flatten_constant_power_towers(tree):
    """A fractional power of a *constant* sub-expression that itself contains a fractional power, e.g.
    (1e-1/6^(1/4))^(5/2), makes sympy's sympify - to which bioscrape hands the text - spin for minutes (a property of the
    pinned sympy, DESIGN section 12).  The outer exponent of such a tower becomes 2.  Returns (tree, changed)."""
    if tree[0] in ("num", "sym", "t", "vol"):
        return tree, False
    parts = [_flatten_constant_power_towers(a) for a in tree[1:]]
    out = [tree[0]] + [p_[0] for p_ in parts]
    changed = any(p_[1] for p_ in parts)
    if out[0] == "pow" and _fractional_exponent(out[2]) and not _has_symbols(out[1]) and _contains_fractional_power(out[1]):
        out[2] = ["num", 2.0, "2"]
        changed = True
    return out, changed


def _clean(tree):
    """Strip None text entries of num nodes."""
    if tree[0] == "num":
        return [x for x in tree if x is not None]
    if tree[0] in ("sym", "t", "vol"):
        return tree
    return [tree[0]] + [_clean(a) for a in tree[1:]]


@st.composite
def expr_cases(draw, max_depth=5):
    nsp = draw(st.integers(1, 4))
    npar = draw(st.integers(1, 4))
    allnames = draw(st.permutations(sorted(set(SPECIES_NAMES + PARAM_NAMES))))
    species = []
    for n in allnames:
        if n in SPECIES_NAMES and len(species) < nsp:
            species.append(n)
    params = [n for n in allnames if n in PARAM_NAMES and n not in species][:npar]
    depth = draw(st.sampled_from([1, 2, 2, 3, 3, 4, 5][:max_depth + 2]))
    tree = _clean(_tree(draw, species, params, depth))
    tree, tower = _flatten_constant_power_towers(tree)
    while ref.tree_depth(tree) > 5:          # the property quantifies over depth <= 5
        tree = tree[1] if tree[0] not in ("num", "sym", "t", "vol") else ["num", 1.0, "1"]
    style = {"printer": draw(st.sampled_from(["full", "min", "min"])),
             "pow": draw(st.sampled_from(["^", "**"])),
             "step": draw(st.sampled_from(["Heaviside", "heaviside"])),
             "sp": draw(st.sampled_from([" ", "", "  "])),
             "legacy": draw(st.sampled_from([None, None, None, "_", "|"]))}
    points = []
    for _ in range(5):
        # the statement quantifies over every state and parameter vector at which the formula is finite: negative
        # values included (a rule such as D = A - B produces them; a parse-time rewrite that is only valid for
        # non-negative symbols must not go unnoticed)
        points.append({"species": {s: draw(st.one_of(st.integers(0, 10).map(float), gen.fl(0, 10), gen.fl(0, 10),
                                                     gen.fl(-10, -0.01), st.integers(-5, -1).map(float)))
                                   for s in species},
                       "params": {p: draw(st.one_of(st.sampled_from([1.0, 2.0, 0.5]), gen.fl(0.1, 10), gen.fl(0.1, 10),
                                                    gen.fl(-10, -0.1))) for p in params},
                       "t": draw(st.one_of(st.sampled_from([0.0, 1.0]), gen.fl(0, 10))),
                       "vol": draw(st.one_of(st.sampled_from([1.0, 2.0, 0.5]), gen.fl(0.2, 5)))})
    surface = draw(st.sampled_from(["parse", "parse", "parse", "model", "rule", "growth"]))
    inject = draw(st.sampled_from([None] * 6 + ["unknown", "unknown", "unsupported"]))
    case = {"kind": "expr", "species": species, "params": params, "tree": tree, "style": style, "points": points,
            "surface": surface, "inject": inject, "rule_via_parameter": draw(st.booleans()),
            "rule_kind": draw(st.sampled_from(["assignment", "assignment", "ode"])), "tower_avoided": tower}
    if inject == "unknown":
        case["unknown"] = draw(st.sampled_from(UNKNOWN_NAMES))
    if inject == "unsupported":
        case["unsupported"] = draw(st.sampled_from(UNSUPPORTED))
    return case


# ---------------------------------------------------------------------------------------------------
def render(case, tree=None):
    tree = case["tree"] if tree is None else tree
    sty = case["style"]
    rename = {}
    if sty["legacy"]:
        for p in case["params"]:
            if p in ref.tree_symbols(tree):
                rename[p] = sty["legacy"] + p
                break
    if sty["printer"] == "full":
        s = ref.show(tree, pow_op=sty["pow"], step_name=sty["step"], rename=rename)
        if sty["sp"] != " ":
            s = s.replace(" ", sty["sp"])
        return s
    return ref.show_min(tree, pow_op=sty["pow"], step_name=sty["step"], rename=rename, sp=sty["sp"])


def _python_eval(s, env, t, vol):
    """Independent check of the printer: evaluate the string with Python's own parser."""
    ns = {"exp": math.exp, "log": math.log, "abs": abs, "min": min, "max": max,
          "Heaviside": lambda x: 1.0 if x >= 0 else 0.0, "heaviside": lambda x: 1.0 if x >= 0 else 0.0,
          "t": t, "volume": vol}
    ns.update(env)
    return eval(s.replace("^", "**"), {"__builtins__": {}}, ns)


def true_value(tree, env, t, vol):
    """(value, max intermediate magnitude) in 50-digit arithmetic, or None outside the finite domain."""
    track = {}
    try:
        v = ref.eval_tree(tree, env, t, vol, mp=_mp, track=track)
    except ref.Undefined:
        return None
    if track.get("minstep", math.inf) <= 1e-6:
        return None
    if track.get("root_of_zero"):
        return None            # see vf/ref.py: outside the finite domain (valid rewrites of the formula are undefined there)
    if track.get("minabs", math.inf) < 1e-100:
        return None            # a non-zero intermediate this small underflows in double precision: range limit
    M = track.get("maxabs", 0.0)
    if not (M < 1e8) or not math.isfinite(float(v)):
        return None
    # conditioning: the same tree in plain double arithmetic must already agree with the 50-digit value a thousand times
    # better than the tolerance the implementation is held to.  Where it does not (log or a quotient of a difference that
    # cancels to rounding noise, e.g. log(volume / I + 0.1) at I = -10) the value is decided by rounding, every double
    # evaluation order gives another answer, and the point is outside the domain that can be checked.
    try:
        vd = ref.eval_tree(tree, env, t, vol, mp=None)
    except ref.Undefined:
        return None
    if not math.isfinite(vd) or abs(vd - float(v)) > 1e-11 * max(1.0, M):
        return None
    return float(v), M


def _unsupported_tree(name, inner):
    return ["unsupported", name, inner]


def _unsupported_value(name, x):
    if name == "sin":
        return math.sin(x)
    if name == "cos":
        return math.cos(x)
    if name == "tanh":
        return math.tanh(x)
    if name == "floor":
        return float(math.floor(x))
    if name == "ceiling":
        return float(math.ceil(x))
    if name == "sqrt":
        if x < 0:
            return None
        return math.sqrt(x)
    if name == "mod":
        return math.fmod(x, 2.0) if x >= 0 else None
    raise ValueError(name)


def check(case):
    from bioscrape.types import Model, parse_expression, StateDependentVolume
    res = R()
    species, params, tree = case["species"], case["params"], case["tree"]
    s2i = {s: i for i, s in enumerate(species)}
    p2i = {p: i for i, p in enumerate(params)}
    text = render(case)
    if case.get("tower_avoided"):
        res.label("generator:constant_power_tower_avoided")
    ops = ref.tree_ops(tree)
    syms = ref.tree_symbols(tree)
    # printer self-check against Python's parser (a printer bug is a harness error, never a violation)
    if case["style"]["legacy"] != "|":
        pt = case["points"][0]
        env = dict(pt["species"]); env.update(pt["params"])
        envp = dict(env)
        if case["style"]["legacy"] == "_":
            envp.update({"_" + p: v for p, v in pt["params"].items()})
        try:
            a = ref.eval_tree(tree, env, pt["t"], pt["vol"])
            b = _python_eval(text, envp, pt["t"], pt["vol"])
            if isinstance(b, complex) or not (abs(a - b) <= 1e-9 * max(1.0, abs(a), abs(b))):
                # (only where the value is not decided by rounding: the minimal-parentheses text associates differently)
                if math.isfinite(a) and not isinstance(b, complex) and math.isfinite(b) and \
                        true_value(tree, env, pt["t"], pt["vol"]) is not None:
                    raise HarnessError(f"printer disagrees with python: {text} -> {b} vs tree {a}")
        except HarnessError:
            raise
        except Exception:
            pass

    inject = case.get("inject")
    if inject == "unknown":
        unk = case["unknown"]
        # additive injection into an expression that is finite somewhere: no algebraic simplification can make
        # the unknown name disappear (a product with 0, or a sum with nan, would legitimately lose it)
        finite_somewhere = False
        for pt in case["points"]:
            env = dict(pt["species"]); env.update(pt["params"])
            if true_value(tree, env, pt["t"], 1.0) is not None:
                finite_somewhere = True
        if not finite_somewhere:
            res.skip = "injection base expression is finite at none of the points"
            return res
        bad_tree = ["add", tree, ["sym", unk]]
        bad = render(case, bad_tree)
        res.nontrivial = True
        res.label("inject:unknown_name", "surface:" + case["surface"])
        if case["surface"] in ("parse", "growth"):
            try:
                with specmod.quiet():
                    term = parse_expression(bad, s2i, p2i)
            except Exception:
                return res
            res.fail(("unknown_name_accepted", "parse_expression"), text=bad, unknown=unk)
            return res
        # inside a model: the build must fail
        pt = case["points"][0]
        try:
            with specmod.quiet():
                if case["surface"] == "model":
                    M = Model(species=species + ["Zout"], parameters=[(p, pt["params"][p]) for p in params],
                              reactions=[([], ["Zout"], "general", {"rate": bad})],
                              initial_condition_dict=dict(pt["species"], Zout=0.0))
                else:
                    M = Model(species=species + ["Zout"], parameters=[(p, pt["params"][p]) for p in params],
                              rules=[("assignment", {"equation": "Zout = " + bad})],
                              initial_condition_dict=dict(pt["species"], Zout=0.0))
        except Exception:
            return res
        res.fail(("unknown_name_accepted", case["surface"]), text=bad, unknown=unk)
        return res

    if inject == "unsupported":
        name = case["unsupported"]
        inner_txt = render(case)
        bad = f"Mod({inner_txt}, 2)" if name == "mod" else f"{name}({inner_txt})"
        res.label("inject:unsupported:" + name)
        try:
            with specmod.quiet():
                term = parse_expression(bad, s2i, p2i)
        except Exception:
            res.label("unsupported:rejected")
            res.nontrivial = True
            return res
        res.label("unsupported:accepted")
        for pt in case["points"]:
            env = dict(pt["species"]); env.update(pt["params"])
            tv = true_value(tree, env, pt["t"], 1.0)
            if tv is None:
                continue
            exp = _unsupported_value(name, tv[0])
            if exp is None or (name in ("floor", "ceiling", "mod") and abs(tv[0] - round(tv[0])) < 1e-6):
                continue
            if name == "sqrt" and tv[0] <= 1e-9:
                continue        # root of exactly zero: outside the finite domain (see true_value)
            xs = np.array([pt["species"][s] for s in species], dtype=float)
            ps = np.array([pt["params"][p] for p in params], dtype=float)
            got = float(term.py_evaluate(xs, ps, pt["t"]))
            res.nontrivial = True
            if not (abs(got - exp) <= 1e-8 * max(1.0, tv[1])):
                res.fail(("unsupported_construct_wrong_value", name), text=bad, got=got, expected=exp, point=pt)
                break
        return res

    # ---- plain evaluation ------------------------------------------------------------------------
    surface = case["surface"]
    res.label("surface:" + surface, "depth:%d" % ref.tree_depth(tree))
    for o in ops & {"min", "max", "abs", "log", "exp", "step", "t", "vol", "pow"}:
        res.label("op:" + o)
    if syms & set(CLASH):
        res.label("clash_name")
    if case["style"]["legacy"] and any(p in syms for p in params):
        res.label("legacy_spelling:" + case["style"]["legacy"])
    try:
        with specmod.quiet():
            if surface == "parse":
                term = parse_expression(text, s2i, p2i)
            elif surface == "model":
                M = Model(species=species + ["Zout"], parameters=[(p, 1.0) for p in params],
                          reactions=[([], ["Zout"], "general", {"rate": text})],
                          initial_condition_dict={s: 0.0 for s in species + ["Zout"]})
            elif surface == "rule" and case.get("rule_kind") == "ode":
                # the expression as the rate of an ODE rule: one Euler step of 0.5 from 0 leaves 0.5 x its value
                M = Model(species=species + ["Zout"], parameters=[(p, 1.0) for p in params],
                          rules=[("ode", {"equation": text, "target": "Zout"})],
                          initial_condition_dict={s: 0.0 for s in species + ["Zout"]})
                res.label("rule_kind:ode")
            elif surface == "rule" and case.get("rule_via_parameter"):
                # the expression is assigned to a parameter, which the next rule copies into the observed species
                M = Model(species=species + ["Zout"], parameters=[(p, 1.0) for p in params] + [("Pzout", 0.0)],
                          rules=[("assignment", {"equation": "Pzout = " + text}),
                                 ("assignment", {"equation": "Zout = Pzout"})],
                          initial_condition_dict={s: 0.0 for s in species + ["Zout"]})
                res.label("rule_assigning_a_parameter")
            elif surface == "rule":
                M = Model(species=species + ["Zout"], parameters=[(p, 1.0) for p in params],
                          rules=[("assignment", {"equation": "Zout = " + text})],
                          initial_condition_dict={s: 0.0 for s in species + ["Zout"]})
            else:
                M = Model(species=species, parameters=[(p, 1.0) for p in params],
                          initial_condition_dict={s: 0.0 for s in species})
                vobj = StateDependentVolume()
                vobj.setup(2.0, 0.0, text, M)
    except Exception as e:
        res.label("loud_rejection")
        res.skip = "expression rejected loudly: " + type(e).__name__
        return res
    n_in_domain = 0
    for pt in case["points"]:
        env = dict(pt["species"]); env.update(pt["params"])
        for volmode in (False, True):
            if surface == "growth" and volmode:
                continue
            vol = pt["vol"] if volmode else 1.0
            tv = true_value(tree, env, pt["t"], vol)
            if tv is None:
                res.label("point_outside_finite_domain")
                continue
            exp, Mx = tv
            if surface == "parse":
                xs = np.array([pt["species"][s] for s in species], dtype=float)
                ps = np.array([pt["params"][p] for p in params], dtype=float)
                got = term.py_volume_evaluate(xs, ps, vol, pt["t"]) if volmode else term.py_evaluate(xs, ps, pt["t"])
            else:
                sm, pm = M.get_species2index(), M.get_params2index()
                xs = np.zeros(len(sm)); ps = np.zeros(len(pm))
                for s in species:
                    xs[sm[s]] = pt["species"][s]
                for p in params:
                    if p in pm:
                        ps[pm[p]] = pt["params"][p]
                if surface == "model":
                    pr = M.get_propensities()[0]
                    got = pr.py_get_volume_propensity(xs, ps, vol, pt["t"]) if volmode else pr.py_get_propensity(xs, ps, pt["t"])
                    # a general rate has no separate stochastic form: the stochastic entry points (the ones the
                    # SSA-type simulators call) evaluate the same expression at the same time and volume
                    got_s = pr.py_verif_stochastic_volume_propensity(xs, ps, vol, pt["t"]) if volmode \
                        else pr.py_verif_stochastic_propensity(xs, ps, pt["t"])
                    if math.isfinite(float(got)) and abs(float(got) - exp) <= 1e-8 * max(1.0, Mx) and \
                            not (math.isfinite(float(got_s)) and abs(float(got_s) - exp) <= 1e-8 * max(1.0, Mx)):
                        res.fail((("volume_" if volmode else "") + "evaluation", "model_stochastic_entry_point"), text=text,
                                 tree=tree, point=pt, got=float(got_s), expected=exp)
                        return res
                elif surface == "rule":
                    from bioscrape.simulator import ModelCSimInterface
                    with specmod.quiet():
                        M.set_params({p: pt["params"][p] for p in params if p in pm})
                        I = ModelCSimInterface(M)
                    st_ = xs.copy()
                    if case.get("rule_kind") == "ode":
                        I.py_set_dt(0.5)
                        st_[sm["Zout"]] = 0.0
                    if volmode:
                        I.py_apply_repeated_volume_rules(st_, vol, pt["t"], True)
                    else:
                        I.py_apply_repeated_rules(st_, pt["t"], True)
                    got = st_[sm["Zout"]] / (0.5 if case.get("rule_kind") == "ode" else 1.0)
                else:
                    if abs(exp) > 5:
                        continue
                    step = vobj.py_get_volume_step(xs, ps, pt["t"], 1.0, 1.0)
                    got = math.log1p(step) if step > -1 else float("nan")
            got = float(got)
            n_in_domain += 1
            tol = (1e-8 if surface != "growth" else 1e-6) * max(1.0, Mx)
            if not (math.isfinite(got) and abs(got - exp) <= tol):
                tag = "volume_evaluation" if volmode else "evaluation"
                feature = sorted(ops & {"min", "max", "abs", "log", "exp", "step", "pow", "div", "neg", "sub", "vol", "t"})
                res.fail((tag, surface), text=text, tree=tree, point=pt, got=got, expected=exp, max_intermediate=Mx,
                         ops=feature)
                return res
    if surface == "parse" and not res.fails and (len(species) >= 2 or len(params) >= 2):
        # the same text compiled again, in the same process, for a model that declares the same names in the opposite
        # order: every symbol must be read from its *new* slot
        s2i_r = {s_: len(species) - 1 - i for s_, i in s2i.items()}
        p2i_r = {p_: len(params) - 1 - i for p_, i in p2i.items()}
        with specmod.quiet():
            term2 = parse_expression(text, s2i_r, p2i_r)
        for pt in case["points"]:
            env = dict(pt["species"]); env.update(pt["params"])
            tv = true_value(tree, env, pt["t"], 1.0)
            if tv is None:
                continue
            xs = np.zeros(len(species)); ps = np.zeros(len(params))
            for s_ in species:
                xs[s2i_r[s_]] = pt["species"][s_]
            for p_ in params:
                ps[p2i_r[p_]] = pt["params"][p_]
            got = float(term2.py_evaluate(xs, ps, pt["t"]))
            if not (math.isfinite(got) and abs(got - tv[0]) <= 1e-8 * max(1.0, tv[1])):
                res.fail(("evaluation_after_recompiling_for_another_declaration_order", "parse"), text=text, point=pt,
                         got=got, expected=tv[0])
                return res
            res.label("recompiled_for_reversed_declaration_order")
            break
    res.nontrivial = (n_in_domain > 0 and ref.tree_depth(tree) >= 2 and
                      bool(ops & {"min", "max", "abs", "log", "exp", "step", "t", "vol"} or syms & set(CLASH)
                           or case["style"]["legacy"]
                           or any(n[0] == "pow" and (n[2][0] != "num" or n[2][1] != int(n[2][1])) for n in _nodes(tree))))
    return res


def _nodes(tree):
    out = [tree]
    if tree[0] not in ("num", "sym", "t", "vol"):
        for a in tree[1:]:
            out.extend(_nodes(a))
    return out


def search(ctx):
    scale = ctx.job.get("scale", 1)
    ctx.run_hypothesis("expressions", expr_cases(), check, ctx.share((120000 if ctx.thorough else 12000) * scale))
