"""C09 - rules hold on every reported row and fire on their schedule."""
import math

import numpy as np
from hypothesis import strategies as st

from vf import gen, ref, spec as specmod
from vf.core import R

STOCH_MODES = ["ssa", "safe_ssa", "volume", "delay", "lineage"]
ALL_MODES = ["deterministic"] + STOCH_MODES


def simulate(sp, grid, mode, seed, extend=False, via_interface=False):
    """Returns (rows as array in spec species order).  extend: the model is initialised by its constructor, then
    given one more (unused) parameter - which un-initialises it - and simulated, so that it is initialised twice."""
    from bioscrape.simulator import py_simulate_model
    from bioscrape.random import py_seed_random
    tp = np.array(grid, dtype=float)
    py_seed_random(seed)
    with specmod.quiet():
        if mode == "lineage":
            from bioscrape.lineage import py_SimulateSingleCell
            M = specmod.to_model(sp, lineage=True)
            if extend:
                M.create_parameter("zzextra", 1.0)
            df = py_SimulateSingleCell(tp, Model=M)
        else:
            M = specmod.to_model(sp)
            if extend:
                M.create_parameter("zzextra", 1.0)
            kw = {"deterministic": dict(stochastic=False), "ssa": dict(stochastic=True),
                  "safe_ssa": dict(stochastic=True, safe=True), "volume": dict(stochastic=True, volume=1.0),
                  "delay": dict(stochastic=True, delay=True)}[mode]
            if via_interface:
                # the documented alternative to Model=: a pre-built interface (built with its default configuration)
                from bioscrape.simulator import ModelCSimInterface, SafeModelCSimInterface
                kw = dict(kw)
                I = SafeModelCSimInterface(M) if kw.pop("safe", False) else ModelCSimInterface(M)
                r = py_simulate_model(tp, Interface=I, return_dataframe=False, **kw)
                order = [M.get_species2index()[s_] for s_ in sp["species"]]
                return (np.asarray(r.py_get_result(), dtype=float)[:, order],
                        np.asarray(r.py_get_timepoints(), dtype=float))
            df = py_simulate_model(tp, Model=M, **kw)
    return df[sp["species"]].to_numpy(dtype=float), df["time"].to_numpy(dtype=float)


def rule_chain_check(res, sp, rows, times, mode, tag, only=None):
    """(a) every repeated species assignment holds on every row, chain evaluated in declaration order.
    only: restrict the assertion to rules with this target."""
    names = sp["species"]
    for k in range(rows.shape[0]):
        env = dict(sp["params"])
        st_ = {s: float(rows[k, i]) for i, s in enumerate(names)}
        for j, rl in enumerate(sp["rules"]):
            if rl.get("freq", "repeated") != "repeated" or rl["type"] == "ode":
                continue
            if only is not None and rl["dest"] != only:
                continue
            e = dict(env)
            e.update(st_)
            v = ref.eval_tree(rl["tree"], e, float(times[k]), 1.0)
            if rl["dest"] in st_:
                got = st_[rl["dest"]]
                if not abs(got - v) <= 1e-12 * max(1.0, abs(v)) + 1e-12:
                    res.fail(("repeated_assignment_violated", mode, tag), row=k, time=float(times[k]), rule=rl["eq"],
                             got=got, expected=v, rule_index=j)
                    return False
            else:
                env[rl["dest"]] = v
    return True


def check(case):
    res = R()
    sp, grid, mode, sub = case["spec"], case["grid"], case["mode"], case["sub"]
    dt = grid[1] - grid[0]
    via = bool(case.get("via_interface")) and mode != "lineage"
    rows, times = simulate(sp, grid, mode, case["seed"], extend=bool(case.get("extend")), via_interface=via)
    if via:
        res.label("through_a_prebuilt_interface")
    if case.get("extend"):
        res.label("initialised_twice")
    names = sp["species"]
    col = {s: i for i, s in enumerate(names)}
    if rows.shape[0] != len(grid) or not np.array_equal(times, np.array(grid)):
        res.fail(("result_rows", mode), got=int(rows.shape[0]), expected=len(grid))
        return res
    res.label("mode:" + mode, "sub:" + sub)
    events = int(np.abs(np.diff(rows[:, [col[s] for s in case.get("dynamic", [])]], axis=0)).sum()) if case.get("dynamic") else 0
    if sub == "chain":
        rule_chain_check(res, sp, rows, times, mode, "chain")
        res.nontrivial = len(sp["rules"]) >= 2
    elif sub == "rate_uses_rule":
        # 0 -> A at rate k*Y (or k*P): the rule sets Y (P) to c whatever its raw value
        c = case["c"]
        A = rows[:, col["A"]]
        if c == 0:
            if np.any(A != sp["x0"]["A"]):
                k = int(np.argmax(A != sp["x0"]["A"]))
                res.fail(("rate_ignores_rule", mode, case["via"]), row=k, got=float(A[k]), expected=sp["x0"]["A"])
        elif mode == "deterministic":
            exp = sp["x0"]["A"] + case["k"] * c * np.array(grid)
            if np.max(np.abs(A - exp)) > 2e-5 * (1 + np.max(np.abs(exp))):
                k = int(np.argmax(np.abs(A - exp)))
                res.fail(("rate_ignores_rule", mode, case["via"]), row=k, got=float(A[k]), expected=float(exp[k]))
        rule_chain_check(res, sp, rows, times, mode, "rate")
        res.nontrivial = True
    elif sub == "scheduled":
        T, v = case["T"], case["v"]
        X = rows[:, col["X"]]
        for k, t in enumerate(grid):
            if t < T and X[k] != sp["x0"]["X"]:
                res.fail(("scheduled_rule_fired_early", mode), row=k, time=t, scheduled=T, got=float(X[k]))
                break
            if t > T and X[k] != v:
                res.fail(("scheduled_rule_not_applied", mode), row=k, time=t, scheduled=T, got=float(X[k]), expected=v)
                break
        res.nontrivial = events >= 1
    elif sub == "dt_counter":
        X = rows[:, col["X"]]
        d = np.diff(X)[1:]
        inc = float(case.get("increment", 1.0))
        if np.any(d != inc):
            k = int(np.argmax(d != inc)) + 1
            res.fail(("dt_rule_steps", mode, "with_reactions" if case.get("dynamic") else "no_reactions") + (("parameter_target",) if case.get("target") == "parameter" else ()),
                     row=k + 1, increment=float(X[k + 1] - X[k]), expected=inc, column=[float(x) for x in X[:8]])
        res.nontrivial = events >= 1
    elif sub == "ode_rule":
        X = rows[:, col["X"]]
        d = np.diff(X)[1:]
        exp = case["rate"] * dt
        if np.any(np.abs(d - exp) > 1e-9 * max(1.0, abs(exp))):
            k = int(np.argmax(np.abs(d - exp) > 1e-9 * max(1.0, abs(exp)))) + 1
            res.fail(("ode_rule_steps", mode, "with_reactions" if case.get("dynamic") else "no_reactions") + (("parameter_target",) if case.get("target") == "parameter" else ()),
                     row=k + 1, increment=float(X[k + 1] - X[k]), expected=exp, dt=dt)
        res.nontrivial = events >= 1
    if case.get("mirror_rule") and not res.fails:
        rule_chain_check(res, sp, rows, times, mode, "after_non_repeated_rule", only="M1")
        res.label("repeated_rule_after_a_non_repeated_one")
    if events >= 1:
        res.label("reaction_events_between_rows")
    if case.get("exhausts"):
        res.label("reactions_run_out_mid_run")
    if "increment" in case:
        res.label("additive_rule_with_its_target_among_the_summands")
    if case.get("target") == "parameter":
        res.label("dt_or_ode_rule_on_a_parameter")
    return res


# ---------------------------------------------------------------------------------------------------
def _dynamics(b, draw, species, allow_none=True):
    """0..3 reactions among `species` (never touching rule targets); bounded."""
    n = draw(st.integers(0 if allow_none else 1, 3))
    for _ in range(n):
        a, c = draw(st.sampled_from(species)), draw(st.sampled_from(species))
        b.reactions.append(gen.massaction(b, [a], [c] if c != a else [], k=draw(gen.logfl(0.1, 20))))
    return n > 0


@st.composite
def chain_case(draw, mode):
    dyn = ["A", "B"]
    targets = ["T1", "T2", "T3", "T4"][:draw(st.integers(1, 4))]
    b = gen.Builder(draw, dyn + targets, named_params=False)
    has_rx = _dynamics(b, draw, dyn)
    pnames = []
    avail_species = list(dyn)
    for i, tgt in enumerate(targets):
        kind = draw(st.sampled_from(["additive", "assignment", "assignment", "param"]))
        if kind == "additive":
            srcs = draw(st.lists(st.sampled_from(avail_species), min_size=1, max_size=3))
            tree = ["add"] + [gen.sym(s) for s in srcs] if len(srcs) > 1 else gen.sym(srcs[0])
            b.rules.append({"type": "additive", "eq": f"{tgt} = " + " + ".join(srcs), "freq": "repeated", "tree": tree,
                            "dest": tgt})
            avail_species.append(tgt)
        elif kind == "assignment":
            s1, s2 = draw(st.sampled_from(avail_species)), draw(st.sampled_from(avail_species))
            terms = [gen.sym(s1), gen.num(draw(st.sampled_from([0.5, 1.0, 2.0, 3.0])))]
            if pnames and draw(st.booleans()):
                terms.append(gen.sym(draw(st.sampled_from(pnames))))
            tree = ["add", ["mul"] + terms, gen.sym(s2)]
            b.rules.append({"type": "assignment", "eq": f"{tgt} = {ref.show(tree)}", "freq": "repeated", "tree": tree,
                            "dest": tgt})
            avail_species.append(tgt)
        else:
            p = f"q{i}"
            b.params[p] = draw(st.sampled_from([0.0, 1.0, 7.0]))
            s1 = draw(st.sampled_from(avail_species))
            tree = ["add", ["mul", gen.sym(s1), gen.num(draw(st.sampled_from([1.0, 2.0])))], gen.num(1.0)]
            b.rules.append({"type": "assignment", "eq": f"{p} = {ref.show(tree)}", "freq": "repeated", "tree": tree,
                            "dest": p})
            pnames.append(p)
            # a later species rule reads the assigned parameter
            tree2 = ["mul", gen.sym(p), gen.num(draw(st.sampled_from([1.0, 0.5])))]
            b.rules.append({"type": "assignment", "eq": f"{tgt} = {ref.show(tree2)}", "freq": "repeated", "tree": tree2,
                            "dest": tgt})
            avail_species.append(tgt)
    x0 = {s: float(draw(st.integers(0, 20))) for s in dyn}
    x0.update({t: float(draw(st.integers(0, 9))) for t in targets})
    return {"sub": "chain", "spec": b.spec(x0), "dynamic": dyn if has_rx else []}


@st.composite
def rate_case(draw, mode):
    via = draw(st.sampled_from(["species", "parameter"]))
    c = draw(st.sampled_from([0.0, 0.0, 2.0, 0.5]))
    k = draw(gen.logfl(0.2, 5))
    b = gen.Builder(draw, ["A", "Y", "Z"], named_params=False)
    b.params["k"] = k
    if via == "species":
        tree = ["mul", gen.sym("k"), gen.sym("Y")]
        ruletree = ["mul", gen.sym("Z"), gen.num(c)]
        b.rules.append({"type": "assignment", "eq": f"Y = {ref.show(ruletree)}", "freq": "repeated", "tree": ruletree, "dest": "Y"})
    else:
        b.params["P"] = 5.0
        tree = ["mul", gen.sym("k"), gen.sym("P")]
        ruletree = ["mul", gen.sym("Z"), gen.num(c)]
        b.rules.append({"type": "assignment", "eq": f"P = {ref.show(ruletree)}", "freq": "repeated", "tree": ruletree, "dest": "P"})
    b.reactions.append(gen.general([], ["A"], tree))
    x0 = {"A": float(draw(st.integers(0, 10))), "Y": 5.0, "Z": 1.0}
    return {"sub": "rate_uses_rule", "spec": b.spec(x0), "c": c, "k": k, "via": via, "dynamic": []}


@st.composite
def schedule_case(draw, mode, grid):
    sub = draw(st.sampled_from(["scheduled", "dt_counter", "ode_rule"]))
    dyn = ["A", "B"]
    b = gen.Builder(draw, dyn + ["X"], named_params=False)
    exhaust = draw(st.integers(0, 4)) == 0
    dt = grid[1] - grid[0]
    if exhaust:
        # reactions that run out part-way through the run: from then on the total propensity is exactly zero
        b.reactions.append(gen.massaction(b, ["A"], [], k=float(f"{draw(st.sampled_from([0.5, 2.0, 8.0])) / dt:.6g}")))
        has_rx = True
    else:
        has_rx = _dynamics(b, draw, dyn)
    if has_rx and not exhaust:
        for rx in b.reactions:       # 0.1 .. 50 events per step
            rx["pd"]["k"] = float(f"{draw(gen.logfl(0.1, 50)) / dt / 10:.6g}")
    x0 = {"A": float(draw(st.integers(5, 20))), "B": float(draw(st.integers(0, 20))), "X": float(draw(st.integers(0, 5)))}
    if exhaust:
        x0["A"] = float(draw(st.integers(1, 6)))
    case = {"sub": sub, "dynamic": dyn if has_rx else [], "exhausts": exhaust}
    if sub == "scheduled":
        T = grid[draw(st.integers(1, len(grid) - 2))]
        v = float(draw(st.integers(10, 99)))
        tree = gen.num(v)
        b.rules.append({"type": "assignment", "eq": f"X = {ref._num_str(v)}", "freq": repr(T), "tree": tree, "dest": "X"})
        case.update(T=T, v=v)
    elif sub == "dt_counter":
        if draw(st.integers(0, 2)) == 0:
            # the counter is a parameter; a repeated rule mirrors it into the observable species X
            b.params["cnt"] = float(draw(st.integers(0, 5)))
            b.rules.append({"type": "assignment", "eq": "cnt = cnt + 1", "freq": "dt",
                            "tree": ["add", gen.sym("cnt"), gen.num(1)], "dest": "cnt"})
            b.rules.append({"type": "assignment", "eq": "X = cnt", "freq": "repeated", "tree": gen.sym("cnt"), "dest": "X"})
            case["target"] = "parameter"
        elif draw(st.booleans()):
            # the same counter written as an additive rule whose target is one of its own summands (B0 is a species
            # that nothing changes; its value is the increment)
            b.species.append("B0")
            case["increment"] = float(draw(st.sampled_from([1.0, 2.0, 3.0])))
            b.rules.append({"type": "additive", "eq": "X = X + B0", "freq": "dt", "tree": ["add", gen.sym("X"), gen.sym("B0")],
                            "dest": "X"})
        else:
            tree = ["add", gen.sym("X"), gen.num(1)]
            b.rules.append({"type": "assignment", "eq": "X = X + 1", "freq": "dt", "tree": tree, "dest": "X"})
    else:
        rate = draw(st.sampled_from([1.0, 0.5, 3.0, -0.25]))
        b.params["rr"] = rate
        if draw(st.integers(0, 2)) == 0:
            b.params["acc"] = float(draw(st.integers(0, 5)))
            b.rules.append({"type": "ode", "eq": "rr", "target": "acc", "freq": "dt", "tree": gen.sym("rr"), "dest": "acc"})
            b.rules.append({"type": "assignment", "eq": "X = acc", "freq": "repeated", "tree": gen.sym("acc"), "dest": "X"})
            case["target"] = "parameter"
        else:
            b.rules.append({"type": "ode", "eq": "rr", "target": "X", "freq": "dt", "tree": gen.sym("rr"), "dest": "X"})
        case["rate"] = rate
    if "increment" in case:
        x0["B0"] = case["increment"]
    if draw(st.booleans()):
        # a plain repeated rule (short 2-tuple form) declared after the scheduled / dt / ODE rule and reading what the
        # reactions change: it must hold on every row like any other repeated rule
        b.species.append("M1")
        x0["M1"] = 0.0
        tree = ["add", gen.sym("A"), gen.sym("B"), gen.num(2.0)]
        b.rules.append({"type": "assignment", "eq": f"M1 = {ref.show(tree)}", "freq": "repeated", "tree": tree, "dest": "M1"})
        case["mirror_rule"] = True
    case["spec"] = b.spec(x0)
    return case


@st.composite
def cases(draw):
    kind = draw(st.sampled_from(["chain", "chain", "rate", "schedule", "schedule", "schedule"]))
    dt = draw(st.sampled_from([0.0625, 0.125, 0.25, 0.5, 1.0]))
    n = draw(st.integers(4, 24))
    grid = [i * dt for i in range(n)]
    if kind == "schedule":
        mode = draw(st.sampled_from(STOCH_MODES))
        case = draw(schedule_case(mode, grid))
    else:
        mode = draw(st.sampled_from(ALL_MODES))
        case = draw(chain_case(mode)) if kind == "chain" else draw(rate_case(mode))
    case.update(kind="rules", mode=mode, grid=grid, seed=draw(st.integers(1, 2 ** 40)),
                extend=draw(st.integers(0, 3)) == 0, via_interface=draw(st.integers(0, 2)) == 0)
    return case


def search(ctx):
    scale = ctx.job.get("scale", 1)
    ctx.run_hypothesis("rules", cases(), check, ctx.share((150000 if ctx.thorough else 12000) * scale))
