"""C06 - every stochastic trajectory is a feasible reaction path (invariants over reported rows)."""
import math

import numpy as np
import sympy
from hypothesis import strategies as st

from vf import distcheck, gen, ref, spec as specmod
from vf.core import R

SIMS = ["ssa", "safe_ssa", "volume", "safe_volume", "delay", "safe_delay", "model_api_safe"]


BIG = 1000000.0


def instrument(sp, consumed_counters=False):
    """Reaction r additionally produces a private counter N_r (and its delayed part a counter D_r).  Products never
    influence a rate, so the dynamics of the original species are unchanged.  consumed_counters: a delayed part that
    only consumes keeps that shape - its counter is a delayed *reactant* that starts at BIG and counts down."""
    out = dict(sp, species=list(sp["species"]), x0=dict(sp["x0"]), reactions=[])
    out["consumed_counters"] = []
    for j, rx in enumerate(sp["reactions"]):
        r2 = dict(rx, p=list(rx["p"]) + [f"N{j}"])
        out["species"].append(f"N{j}")
        out["x0"][f"N{j}"] = 0.0
        if rx.get("delay"):
            d = dict(rx["delay"])
            out["species"].append(f"D{j}")
            if consumed_counters and d.get("r") and not d.get("p"):
                d["r"] = list(d["r"]) + [f"D{j}"]
                out["x0"][f"D{j}"] = BIG
                out["consumed_counters"].append(j)
            else:
                d["p"] = list(d.get("p", [])) + [f"D{j}"]
                out["x0"][f"D{j}"] = 0.0
            r2["delay"] = d
        out["reactions"].append(r2)
    return out


def conservation_laws(sp):
    """Integer basis of the left null space of [S | S_d] over the original (non-counter) species."""
    S, Sd = ref.stoich(sp)
    species = [s for s in sp["species"] if not (s[0] in "ND" and s[1:].isdigit())]
    cols = []
    for j in range(len(sp["reactions"])):
        cols.append([S[s][j] for s in species])
        cols.append([Sd[s][j] for s in species])
    A = sympy.Matrix(cols)            # rows = columns of the stoichiometry; w with A w = 0
    laws = []
    for v in A.nullspace():
        den = sympy.ilcm(*[sympy.Rational(x).q for x in v])
        laws.append({s: int(x * den) for s, x in zip(species, v)})
    return laws


def _simulate(sim, sp, tp, seed, vol, used_before=False):
    from bioscrape.simulator import (ModelCSimInterface, SafeModelCSimInterface, SSASimulator, VolumeSSASimulator,
                                     DelaySSASimulator, ArrayDelayQueue, py_simulate_model)
    from bioscrape.types import Volume
    from bioscrape.random import py_seed_random
    with specmod.quiet():
        M = specmod.to_model(sp)
        safe = sim.startswith("safe")
    dt = float(tp[1] - tp[0])
    order = [M.get_species2index()[s] for s in sp["species"]]
    for round_ in ((1, 0) if used_before else (0,)):
        # (used_before: the same model object has been simulated before - same simulator kind, its own interface, another
        # seed; that first result is discarded)
        with specmod.quiet():
            I = SafeModelCSimInterface(M) if safe else ModelCSimInterface(M)
        I.py_set_dt(dt)
        py_seed_random(seed + round_)
        out = _run_once(sim, sp, M, I, tp, dt, vol)
    return out if sim == "model_api_safe" else np.asarray(out, dtype=float)[:, order]


def _run_once(sim, sp, M, I, tp, dt, vol):
    from bioscrape.simulator import (SSASimulator, VolumeSSASimulator, DelaySSASimulator, ArrayDelayQueue, py_simulate_model)
    from bioscrape.types import Volume
    with specmod.quiet():
        if sim in ("ssa", "safe_ssa"):
            r = SSASimulator().py_simulate(I, tp).py_get_result()
        elif sim in ("volume", "safe_volume"):
            v = Volume()
            v.py_set_volume(vol)
            r = VolumeSSASimulator().py_volume_simulate(I, v, tp).py_get_result()
        elif sim in ("delay", "safe_delay"):
            q = ArrayDelayQueue.setup_queue(len(sp["reactions"]), len(tp), dt)
            r = DelaySSASimulator().py_delay_simulate(I, q, tp).py_get_result()
        elif sim == "model_api_safe":
            df = py_simulate_model(tp, Model=M, stochastic=True, safe=True)
            return df[sp["species"]].to_numpy(dtype=float)
        else:
            raise ValueError(sim)
    return r


def check(case):
    res = R()
    base, sim, vol = case["spec"], case["sim"], case.get("vol", 1.0)
    tp = np.array(case["grid"], dtype=float)
    if case["kind"] == "safe_table":
        return check_safe_table(case)
    sp = instrument(base) if case["instrumented"] else base
    delay_aware = sim in ("delay", "safe_delay")
    is_safe = sim.startswith("safe") or sim == "model_api_safe"
    mass_action_only = all(rx["type"] == "massaction" for rx in base["reactions"])
    has_delay_reactants = any((rx.get("delay") or {}).get("r") for rx in base["reactions"])
    x = _simulate(sim, sp, tp, case["seed"], vol, used_before=bool(case.get("model_used_before")))
    if case.get("model_used_before"):
        res.label("model_simulated_before")
    names = sp["species"]
    col = {s: i for i, s in enumerate(names)}
    if x.shape != (len(tp), len(names)):
        res.fail(("result_shape", sim), got=list(x.shape), expected=[len(tp), len(names)])
        return res
    # first row: the initial state (no rules in these models)
    for s in names:
        if tp[0] == 0 and x[0, col[s]] != sp["x0"][s]:
            res.fail(("first_row", sim), species=s, got=float(x[0, col[s]]), expected=sp["x0"][s])
            return res
    if tp[0] != 0:
        res.label("grid_starts_after_simulation_start")
    # (ii) integrality
    if np.any(x != np.round(x)):
        r_, c_ = np.argwhere(x != np.round(x))[0]
        res.fail(("non_integer_count", sim), row=int(r_), species=names[c_], value=float(x[r_, c_]))
        return res
    # (iii) conservation laws, exact integer arithmetic
    xi = x.astype(np.int64)
    laws = conservation_laws(sp)
    for w in laws:
        tot = sum(w[s] * xi[:, col[s]] for s in w)
        tot0 = sum(w[s] * int(sp["x0"][s]) for s in w)          # conserved from the initial state on
        if np.any(tot != tot0):
            k = int(np.argmax(tot != tot0))
            res.fail(("conservation_law", sim), law=w, row=k, got=int(tot[k]), expected=int(tot0))
            return res
    S, Sd = ref.stoich(sp)
    nr = len(sp["reactions"])
    events = 0
    # (i) every change is a non-negative integer combination of the net stoichiometries
    if case["instrumented"]:
        N = np.stack([xi[:, col[f"N{j}"]] for j in range(nr)], axis=1)
        dN = np.diff(N, axis=0)
        if np.any(dN < 0):
            res.fail(("counter_decreased", sim), detail="firing counter went down")
            return res
        events = int(dN.sum())
        D = np.zeros_like(N)
        for j in range(nr):
            if f"D{j}" in col:
                D[:, j] = xi[:, col[f"D{j}"]]
        dD = np.diff(D, axis=0)
        for s in names:
            dx = np.diff(xi[:, col[s]])
            if delay_aware:
                exp = sum(dN[:, j] * S[s][j] + dD[:, j] * Sd[s][j] for j in range(nr))
            else:
                exp = sum(dN[:, j] * (S[s][j] + Sd[s][j]) for j in range(nr))
            if np.any(dx != exp):
                k = int(np.argmax(dx != exp))
                res.fail(("not_a_reaction_combination", sim), species=s, row=k + 1, got=int(dx[k]), expected=int(exp[k]),
                         firings=[int(v) for v in dN[k]], deliveries=[int(v) for v in dD[k]])
                return res
        if delay_aware:
            # nothing is delivered before it fired / more often than it fired
            if np.any(D > N) or np.any(dD < 0):
                res.fail(("delivery_without_firing", sim), detail="delivery counter exceeds firing counter")
                return res
        else:
            for j in range(nr):
                if f"D{j}" in col and np.any(D[:, j] != N[:, j]):
                    res.fail(("delay_unaware_split", sim), reaction=j,
                             detail="simulator without delay support did not apply both parts at the firing time")
                    return res
    else:
        events = int(np.abs(np.diff(xi, axis=0)).sum() > 0)
    # (iv) non-negativity
    if (mass_action_only or is_safe) and not has_delay_reactants:
        if np.any(xi < 0):
            r_, c_ = np.argwhere(xi < 0)[0]
            res.fail(("negative_count", sim, "massaction" if mass_action_only else "safe_nonmassaction"),
                     row=int(r_), species=names[c_], value=int(xi[r_, c_]))
            return res
    # (v) a state whose total propensity is zero persists
    has_delay = any(rx.get("delay") for rx in base["reactions"])
    if not (delay_aware and has_delay):
        mode = "stochvol" if "volume" in sim else "stoch"
        fn = distcheck.safe_ratefn(mode, vol) if is_safe else None
        for k in range(len(tp) - 1):
            st_ = {s: float(x[k, col[s]]) for s in names}
            if any(v < 0 for v in st_.values()):
                break
            tot = 0.0
            for rx in sp["reactions"]:
                tot += fn(sp, rx, st_) if fn else ref.rate(sp, rx, st_, 0.0, mode, vol)
            if tot == 0.0:
                res.label("absorbing_state_reached")
                if np.any(x[k + 1:] != x[k]):
                    res.fail(("absorbing_state_left", sim), row=k, state=st_)
                    return res
                break
    res.label("sim:" + sim, "events>=3" if events >= 3 else "events<3")
    if laws:
        res.label("has_conservation_law")
    if not mass_action_only:
        res.label("non_mass_action")
    res.nontrivial = events >= 3 and (bool(laws) or (not mass_action_only and is_safe))
    return res


def check_safe_table(case):
    """(vi) at states with an under-supplied reaction the safe interface reports stochastic propensity exactly 0."""
    from bioscrape.simulator import SafeModelCSimInterface
    res = R()
    sp = case["spec"]
    with specmod.quiet():
        M = specmod.to_model(sp)
        I = SafeModelCSimInterface(M)
    for st_ in case["states"]:
        x = specmod.state_vector(M, st_)
        for mode in ("stoch", "stochvol"):
            got = I.py_verif_compute_propensities(x.copy(), 0.0, mode, case.get("vol", 1.0))
            for j, rx in enumerate(sp["reactions"]):
                d = rx.get("delay") or {}
                allr = list(rx["r"]) + list(d.get("r", []))
                # under-supplied with respect to the net consumption the interface guards
                short = False
                for s in set(allr):
                    imm = rx["r"].count(s) - rx["p"].count(s)
                    dl = d.get("r", []).count(s) - d.get("p", []).count(s) if d else 0
                    need = (imm + dl) if (imm > 0 and dl > 0) else max(imm, dl, 0)
                    if need > 0 and st_[s] < need:
                        short = True
                if short:
                    res.nontrivial = True
                    res.label("under_supplied_reaction")
                    if got[j] != 0.0:
                        res.fail(("safe_guard_missing", mode, rx["type"]), reaction=rx, state=st_, got=float(got[j]))
                        return res
    return res


# ---------------------------------------------------------------------------------------------------
@st.composite
def networks(draw, safe, delayed_reactants=False):
    """Bounded by construction: every reaction has #products (immediate + delayed) <= #reactants, except zero-order
    inflow at a rate <= 1 (linear growth over a short horizon).  Delay blocks move products of the reaction into the
    delayed part (they never add molecules); delayed reactants (extra consumption) are rare."""
    species = draw(gen.species_names(2, 5))
    b = gen.Builder(draw, species)
    for _ in range(draw(st.integers(1, 6))):
        if draw(st.integers(0, 6)) == 0:
            rx = gen.massaction(b, [], [draw(st.sampled_from(species))], k=b.value_entry(gen.logfl(0.05, 1.0)))
        else:
            rx = gen.finite_reaction(b, species, safe=safe)
        if draw(st.integers(0, 2)) == 0:
            d = gen.draw_delay(b, species, scale=(0.05, 3.0))
            moved = []
            keep = []
            for pr in rx["p"]:
                (moved if draw(st.booleans()) else keep).append(pr)
            d["p"] = moved
            # extra consumption that the rate law does not see: only where the safe interface guards it at the
            # firing time and both parts are applied together (otherwise counts may legitimately go negative)
            d["r"] = [draw(st.sampled_from(species))] if (delayed_reactants and draw(st.integers(0, 3)) == 0) else []
            if d["p"] or d["r"]:
                rx["p"] = keep
                rx["delay"] = d
        b.reactions.append(rx)
    x0 = {s: float(draw(st.integers(0, 50))) for s in species}
    return b.spec(x0)


@st.composite
def cases(draw):
    if draw(st.integers(0, 7)) == 0:
        sp = draw(networks(True, delayed_reactants=True))
        states = [{s: float(draw(st.integers(0, 3))) for s in sp["species"]} for _ in range(draw(st.integers(2, 6)))]
        return {"kind": "safe_table", "spec": sp, "states": states, "vol": draw(st.sampled_from([1.0, 2.0, 0.5])),
                "sim": "safe_table", "grid": [0.0, 1.0], "instrumented": False}
    sim = draw(st.sampled_from(SIMS))
    safe = sim.startswith("safe") or sim == "model_api_safe"
    sp = draw(networks(safe, delayed_reactants=sim in ("safe_ssa", "safe_volume", "model_api_safe")))
    if sim == "safe_delay":
        # with the delay simulator a delayed reactant is consumed when the delay has passed, whatever is left by then - its
        # count may go below zero.  That is only a valid input for a species no rate law reads: one is added
        used = set()
        for rx in sp["reactions"]:
            used |= set(rx["r"]) | {rx["pd"].get("s1"), rx["pd"].get("d")} | (ref.tree_symbols(rx["tree"]) if rx.get("tree") else set())
        delayed = [rx for rx in sp["reactions"] if rx.get("delay")]
        if delayed and draw(st.booleans()):
            sp["species"].append("Lf")
            sp["x0"]["Lf"] = float(draw(st.integers(0, 3)))
            draw(st.sampled_from(delayed))["delay"]["r"] = ["Lf"]
    dt = draw(st.sampled_from([0.03125, 0.0625, 0.125, 0.25, 0.5]))
    n = draw(st.integers(3, 30))
    k0 = draw(st.sampled_from([0, 0, 0, 3, 8]))      # the reported grid may start after the simulation start (time 0)
    return {"kind": "path", "spec": sp, "sim": sim, "grid": [(k0 + i) * dt for i in range(n)],
            "instrumented": draw(st.integers(0, 4)) > 0, "vol": draw(st.sampled_from([1.0, 0.5, 2.0, 3.7])),
            "seed": draw(st.integers(1, 2 ** 40)), "model_used_before": draw(st.integers(0, 3)) == 0}


def search(ctx):
    scale = ctx.job.get("scale", 1)
    ctx.run_hypothesis("paths", cases(), check, ctx.share((300000 if ctx.thorough else 30000) * scale))
