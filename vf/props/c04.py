"""C04 - deterministic simulation solves the model's rate equations."""
import numpy as np
import scipy.linalg
from hypothesis import strategies as st
from scipy.integrate import solve_ivp

from vf import gen, ref, spec as specmod
from vf.core import R


def linear_reference(sp, grid):
    names = sp["species"]
    n = len(names)
    zero = {s: 0.0 for s in names}
    b = np.array([ref.rhs(sp, zero)[s] for s in names])
    A = np.zeros((n, n))
    for j, sj in enumerate(names):
        e = dict(zero)
        e[sj] = 1.0
        f = ref.rhs(sp, e)
        A[:, j] = np.array([f[s] for s in names]) - b
    aug = np.zeros((n + 1, n + 1))
    aug[:n, :n] = A
    aug[:n, n] = b
    x0 = np.array([sp["x0"][s] for s in names] + [1.0])
    # 30-digit matrix exponential (the systems are small); scipy.linalg.expm is not relied upon - see vf/cme.py
    import mpmath
    with mpmath.workdps(30):
        augm, x0m = mpmath.matrix(aug.tolist()), mpmath.matrix([float(v) for v in x0])
        return np.array([[float(v) for v in (mpmath.expm(augm * float(t)) * x0m)][:n] for t in grid])


def ivp_reference(sp, grid, max_step=np.inf):
    names = sp["species"]

    def f(t, x):
        st_ = {s: float(v) for s, v in zip(names, x)}
        d = ref.rhs(sp, st_, t)
        return [d[s] for s in names]

    x0 = [sp["x0"][s] for s in names]
    sols = []
    for rtol, atol in ((1e-11, 1e-13), (1e-9, 1e-11)):
        sol = solve_ivp(f, (grid[0], grid[-1]), x0, method="DOP853", t_eval=grid, rtol=rtol, atol=atol, max_step=max_step)
        if not sol.success or sol.y.shape[1] != len(grid):
            return None
        sols.append(sol.y.T)
    if np.max(np.abs(sols[0] - sols[1])) > 1e-7 * (1 + np.max(np.abs(sols[0]))):
        return None
    # How far does an *independent* integrator get at the tolerances bioscrape's simulator uses (odeint defaults,
    # 1.49e-8)?  On exponentially sensitive transients (autocatalysis) that is well above the non-stiff rule of thumb;
    # the comparison tolerance grows with it (see check).
    try:
        lo = solve_ivp(f, (grid[0], grid[-1]), x0, method="LSODA", t_eval=grid, rtol=1.49012e-8, atol=1.49012e-8,
                       max_step=max_step)
        if lo.success and lo.y.shape[1] == len(grid):
            ivp_reference.conditioning = float(np.max(np.abs(lo.y.T - sols[0])))
        else:
            ivp_reference.conditioning = 0.0
    except Exception:
        ivp_reference.conditioning = 0.0
    return sols[0]


ivp_reference.conditioning = 0.0


def check(case):
    from bioscrape.simulator import py_simulate_model, ModelCSimInterface, DeterministicSimulator
    res = R()
    sp, grid = case["spec"], case["grid"]
    tp = np.array(grid, dtype=float)
    try:
        if case["family"] == "L":
            xref = linear_reference(sp, grid)
        elif case["family"] == "P":
            xref = ivp_reference(sp, grid, max_step=case["width"] / 4)
        else:
            xref = ivp_reference(sp, grid)
    except (ref.Undefined, OverflowError, ZeroDivisionError, ValueError):
        xref = None
    if xref is None or not np.all(np.isfinite(xref)):
        res.skip = "reference integration not trustworthy"
        return res
    names = sp["species"]
    opts = dict(case.get("options") or {})      # documented solver keywords (hmax, atol, rtol) of the deterministic simulator
    with specmod.quiet():
        M = specmod.to_model(sp)
        if case.get("loose_call_before"):
            # an earlier call - on another model - passed its own (loose) tolerances: they belong to that call only
            Mloose = specmod.to_model(sp)
            py_simulate_model(tp[:3] if len(tp) > 3 else tp, Model=Mloose, atol=1e-2, rtol=1e-2)
        if case["surface"] == "interface_reused":
            # one interface used for two runs: first with every named parameter tripled (for the pulse family on a
            # two-point grid, which makes the integrator exhaust its first step allowance and retry), then - after
            # Model.set_params restored the values - the measured run
            orig = {p_: float(v_) for p_, v_ in sp["params"].items()}
            M.set_params({p_: 3.0 * v_ for p_, v_ in orig.items()})
            I = ModelCSimInterface(M)
            first_grid = np.array([tp[0], tp[-1]]) if case["family"] == "P" else (tp[:3] if len(tp) > 3 else tp)
            py_simulate_model(first_grid, Interface=I, return_dataframe=False, **opts)
            M.set_params(orig)
            r = py_simulate_model(tp, Interface=I, return_dataframe=False, **opts)
            order = [M.get_species2index()[s] for s in names]
            got = np.asarray(r.py_get_result(), dtype=float)[:, order]
            tcol = np.asarray(r.py_get_timepoints(), dtype=float)
        elif case["surface"] == "model_api":
            df = py_simulate_model(tp, Model=M, **opts)
            got = df[names].to_numpy(dtype=float)
            tcol = df["time"].to_numpy(dtype=float)
        else:
            I = ModelCSimInterface(M)
            I.py_prep_deterministic_simulation()
            if case["surface"] == "simulator_batch":
                # interfaces are commonly prepared ahead of use (sensitivity analysis, inference): another model -
                # the same network with every rate constant tripled - is prepared, and simulated, in between
                import copy
                sp2 = copy.deepcopy(sp)
                for k_ in sp2["params"]:
                    sp2["params"][k_] = 3.0 * float(sp2["params"][k_])
                for rx_ in sp2["reactions"]:
                    if rx_["type"] != "general" and not isinstance(rx_["pd"]["k"], str):
                        rx_["pd"]["k"] = 3.0 * float(rx_["pd"]["k"])
                M2 = specmod.to_model(sp2)
                I2 = ModelCSimInterface(M2)
                I2.py_prep_deterministic_simulation()
                if case.get("decoy_runs"):
                    DeterministicSimulator().py_simulate(I2, tp[:3] if len(tp) > 3 else tp)
            sim = DeterministicSimulator()
            if case.get("hmax_by_setter") and "hmax" in opts:
                sim.py_set_hmax(opts.pop("hmax"))
            tols = case.get("tolerances")
            if tols:
                # the two documented ways of giving the integrator its tolerances - the simulator's setter and the atol /
                # rtol keywords of the call - say the same thing: identical trajectories
                sim.py_set_tolerance(float(tols[0]), float(tols[1]))
                Mk = specmod.to_model(sp)
                Ik = ModelCSimInterface(Mk)
                Ik.py_prep_deterministic_simulation()
                rk = DeterministicSimulator().py_simulate(Ik, tp, atol=float(tols[0]), rtol=float(tols[1]), **opts)
                by_keyword = np.asarray(rk.py_get_result(), dtype=float)
                I.py_prep_deterministic_simulation()
            r = sim.py_simulate(I, tp, **opts)
            if tols:
                by_setter = np.asarray(r.py_get_result(), dtype=float)
                res.label("tolerances_by_setter_and_by_keyword")
                if by_setter.shape != by_keyword.shape or not np.array_equal(by_setter, by_keyword):
                    res.fail(("tolerance_setter_differs_from_keywords",), atol=tols[0], rtol=tols[1],
                             max_difference=float(np.max(np.abs(by_setter - by_keyword))) if by_setter.shape == by_keyword.shape else None)
                    return res
            order = [M.get_species2index()[s] for s in names]
            got = np.asarray(r.py_get_result(), dtype=float)[:, order]
            tcol = np.asarray(r.py_get_timepoints(), dtype=float)
    if got.shape != xref.shape:
        res.fail(("result_shape", case["surface"]), got=list(got.shape), expected=list(xref.shape))
        return res
    if not np.array_equal(tcol, tp):
        res.fail(("time_axis", case["surface"]), got=[float(v) for v in tcol[:5]], expected=grid[:5])
        return res
    x0 = np.array([sp["x0"][s] for s in names])
    if not np.array_equal(got[0], x0):
        res.fail(("first_row_not_initial_condition", case["surface"]), got=[float(v) for v in got[0]], expected=[float(v) for v in x0])
        return res
    cond = ivp_reference.conditioning if case["family"] != "L" else 0.0
    tol = 2e-5 * (1 + np.max(np.abs(xref))) + 20.0 * cond
    if cond > 1e-6 * (1 + np.max(np.abs(xref))):
        res.label("sensitive_transient:tolerance_widened")
    err = np.abs(got - xref)
    if not np.all(np.isfinite(got)) or np.max(err) > tol:
        k, j = np.unravel_index(np.argmax(np.where(np.isfinite(err), err, np.inf)), err.shape)
        feats = sorted({rx["type"] for rx in sp["reactions"]})
        res.fail(("trajectory", case["family"], "delayed_part" if any(rx.get("delay") for rx in sp["reactions"]) else "no_delay"),
                 row=int(k), time=float(tp[k]), species=names[j], got=float(got[k, j]), expected=float(xref[k, j]),
                 tolerance=float(tol), types=feats)
        return res
    ratio = float(np.max(err) / tol)
    res.label("err/tol<1e-3" if ratio < 1e-3 else ("err/tol<1e-1" if ratio < 1e-1 else "err/tol>=1e-1"))
    nonuniform = len(set(np.round(np.diff(tp), 12))) > 1
    delayed = any(rx.get("delay") for rx in sp["reactions"])
    if case.get("loose_call_before"):
        res.label("after_a_call_with_its_own_tolerances")
    res.label("family:" + case["family"], "surface:" + case["surface"], *(["nonuniform_grid"] if nonuniform else []),
              *(["delayed_part"] if delayed else []),
              *(["rate_that_changes_sign"] if any(rx.get("signed") for rx in sp["reactions"]) else []))
    res.nontrivial = len(sp["reactions"]) >= 2 and (case["family"] != "L" or nonuniform or delayed)
    return res


# ---------------------------------------------------------------------------------------------------
def _maybe_delay(b, rx, species):
    draw = b.draw
    if draw(st.integers(0, 3)) == 0 and rx["p"]:
        d = gen.draw_delay(b, species, scale=(0.1, 3.0))
        moved = [p for p in rx["p"] if draw(st.booleans())]
        if moved:
            for p in moved:
                rx["p"].remove(p)
            d["p"], d["r"] = moved, []
            rx["delay"] = d


@st.composite
def linear_net(draw):
    species = draw(gen.species_names(1, 4))
    b = gen.Builder(draw, species)
    for _ in range(draw(st.integers(1, 5))):
        a, c = draw(st.sampled_from(species)), draw(st.sampled_from(species))
        shape = draw(st.sampled_from(["conv", "deg", "inflow", "cat"]))
        if shape == "conv":
            rx = gen.massaction(b, [a], [c] if c != a else [])
        elif shape == "deg":
            rx = gen.massaction(b, [a], [])
        elif shape == "inflow":
            rx = gen.massaction(b, [], [c])
        else:
            rx = gen.massaction(b, [a], [a, c], k=b.value_entry(gen.logfl(0.05, 0.6)))
        _maybe_delay(b, rx, species)
        b.reactions.append(rx)
    return b.spec({s: draw(gen.amount(20)) for s in species})


@st.composite
def nonlinear_net(draw, time_dep):
    species = draw(gen.species_names(1, 4))
    b = gen.Builder(draw, species)
    for _ in range(draw(st.integers(1, 5))):
        kind = draw(st.integers(0, 9))
        if kind == 0:
            rx = gen.massaction(b, [], [draw(st.sampled_from(species))])
        elif time_dep and kind in (1, 2, 3):
            a, c = draw(st.sampled_from(species)), draw(st.sampled_from(species))
            k = gen.sym(b.new_param(draw(gen.logfl(0.05, 5))))
            al = gen.num(draw(st.sampled_from([0.25, 0.5, 1.0, 2.0])))
            if kind == 1:
                tree = ["mul", k, gen.sym(a), ["exp", ["neg", ["mul", al, ["t"]]]]]
                rx = gen.general([a], [c] if c != a else [], tree)
            elif kind == 2:
                tree = ["div", ["mul", k, ["t"]], ["add", gen.num(1), ["t"]]]
                rx = gen.general([], [c], tree)
            else:
                tree = ["div", ["mul", k, gen.sym(a)], ["add", gen.num(1), ["mul", al, ["t"]]]]
                rx = gen.general([a], [c] if c != a else [], tree)
        elif kind == 4 and len(species) >= 2:
            # lumped reversible law: one reaction whose rate changes sign (equivalent to a <-> c, hence bounded)
            a = draw(st.sampled_from(species))
            c = draw(st.sampled_from([s for s in species if s != a]))
            kf = gen.sym(b.new_param(draw(gen.logfl(0.05, 5))))
            kr = gen.sym(b.new_param(draw(gen.logfl(0.05, 5))))
            rx = gen.general([a], [c], ["sub", ["mul", kf, gen.sym(a)], ["mul", kr, gen.sym(c)]])
            rx["signed"] = True
        else:
            rx = gen.finite_reaction(b, species)
            if rx["type"] in ref.HILL_TYPES:
                rx["pd"]["n"] = float(draw(st.sampled_from([1, 2, 3, 4])))   # see DESIGN amendments: overshoot below 0
        _maybe_delay(b, rx, species)
        b.reactions.append(rx)
    return b.spec({s: draw(gen.amount(20)) for s in species})


@st.composite
def pulse_case(draw):
    """A quiet system at steady state hit by a narrow smooth pulse late in the run: only a solver that honours the
    requested maximum step (keyword hmax / py_set_hmax) sees the pulse at all."""
    species = draw(gen.species_names(1, 2))
    b = gen.Builder(draw, species, named_params=False)
    X = species[0]
    k0 = draw(st.sampled_from([0.5, 1.0, 2.0]))
    g = draw(st.sampled_from([0.25, 0.5, 1.0]))
    amp = draw(st.sampled_from([20.0, 50.0, 100.0]))
    w = draw(st.sampled_from([0.05, 0.1]))
    T = draw(st.sampled_from([8.0, 16.0]))
    tc = T * draw(st.sampled_from([0.5, 0.7, 0.8]))
    b.params["kin"] = k0          # named, so that the 'interface_reused' surface has parameter values to change
    b.params["gdeg"] = g
    tree = ["add", gen.sym("kin"), ["mul", gen.num(amp), ["exp", ["neg", ["pow", ["div", ["sub", ["t"], gen.num(tc)], gen.num(w)], gen.num(2)]]]]]
    b.reactions.append(gen.general([], [X], tree))
    b.reactions.append(gen.massaction(b, [X], [] if len(species) == 1 else [species[1]], k="gdeg"))
    if len(species) == 2:
        b.reactions.append(gen.massaction(b, [species[1]], [], k=draw(st.sampled_from([0.5, 1.0]))))
    x0 = {X: k0 / g}
    if len(species) == 2:
        x0[species[1]] = k0 / b.reactions[2]["pd"]["k"]
    n = draw(st.integers(5, 40))
    grid = [T * i / (n - 1) for i in range(n)]
    return {"kind": "ode", "family": "P", "spec": b.spec(x0), "grid": grid, "width": w, "options": {"hmax": w / 4},
            "hmax_by_setter": draw(st.booleans()),
            "surface": draw(st.sampled_from(["model_api", "simulator", "interface_reused", "interface_reused"])),
            "loose_call_before": draw(st.integers(0, 3)) == 0}


@st.composite
def cases(draw):
    fam = draw(st.sampled_from(["L", "N", "N", "T", "N", "T", "L", "P"]))
    if fam == "P":
        return draw(pulse_case())
    sp = draw(linear_net()) if fam == "L" else draw(nonlinear_net(fam == "T"))
    n = draw(st.integers(2, 40))
    if draw(st.booleans()):
        dt = draw(st.sampled_from([0.01, 0.05, 0.125, 0.25]))
        dt = min(dt, 5.0 / n)
        grid = [round(i * dt, 10) for i in range(n)]
    else:
        incs = sorted(draw(st.lists(gen.fl(0.001, 1.0), min_size=n - 1, max_size=n - 1)))
        tot = sum(incs)
        scale = min(1.0, 5.0 / tot)
        grid = [0.0]
        for d in draw(st.permutations(incs)):
            grid.append(grid[-1] + d * scale)
    return {"kind": "ode", "family": fam, "spec": sp, "grid": grid,
            "surface": draw(st.sampled_from(["model_api", "simulator", "simulator_batch", "interface_reused"])),
            "decoy_runs": draw(st.booleans()), "loose_call_before": draw(st.integers(0, 3)) == 0,
            # both at least as tight as the default (1.5e-8), so the accuracy comparison below stays as it is
            "tolerances": draw(st.sampled_from([None, None, [1e-8, 1e-12], [1e-13, 1e-8], [1e-9, 1e-11], [1e-12, 1e-9]]))}


def search(ctx):
    scale = ctx.job.get("scale", 1)
    ctx.run_hypothesis("odes", cases(), check, ctx.share((60000 if ctx.thorough else 6000) * scale))
