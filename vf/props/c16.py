"""C16 - built-in priors are the log-densities they are named after."""
import math

import numpy as np
import scipy.stats as st_
from hypothesis import strategies as st

from vf.core import R

FAMILIES = ["uniform", "gaussian", "exponential", "gamma", "beta", "log-uniform", "log-gaussian"]


# ---------------------------------------------------------------------------------------------------
# reference
def ref_dist(family, args):
    if family == "uniform":
        a, b = args
        return st_.uniform(a, b - a), (a, b)
    if family == "gaussian":
        mu, sig = args
        return st_.norm(mu, sig), (-math.inf, math.inf)
    if family == "exponential":
        return st_.expon(scale=1.0 / args[0]), (0.0, math.inf)
    if family == "gamma":
        return st_.gamma(a=args[0], scale=1.0 / args[1]), (0.0, math.inf)
    if family == "beta":
        return st_.beta(args[0], args[1]), (0.0, 1.0)
    if family == "log-uniform":
        return st_.loguniform(args[0], args[1]), (args[0], args[1])
    if family == "log-gaussian":
        return st_.lognorm(s=args[1], scale=math.exp(args[0])), (0.0, math.inf)
    raise ValueError(family)

# bioscrape computes the density in double precision and then its logarithm.  Below e^-300 the density's factors (e.g.
# (1-x)^(b-1) of a beta density) enter the subnormal range and lose digits although the density itself is still
# representable; such tails are a range limit, not the property.
LOGMIN = -300.0


def in_support(family, args, x):
    d, (lo, hi) = ref_dist(family, args)
    if x == lo or x == hi:
        # a closure point of the support counts as inside exactly when the density there is finite and positive
        # (gamma with shape 1 at 0, beta(a, 1) at 1, the ends of a uniform interval, ...)
        return math.isfinite(float(d.logpdf(x)))
    if family in ("uniform", "log-uniform"):
        return lo <= x <= hi
    if family == "gaussian":
        return True
    if family == "exponential":
        return x >= 0
    if family in ("gamma", "log-gaussian"):
        return x > 0
    if family == "beta":
        return 0 < x < 1
    raise ValueError(family)


def ref_logpdf(family, args, x):
    d, _ = ref_dist(family, args)
    return float(d.logpdf(x))


# ---------------------------------------------------------------------------------------------------
# generator
def _fl(lo, hi):
    return st.floats(min_value=lo, max_value=hi, allow_nan=False, allow_infinity=False)


def _logfl(lo, hi):
    return _fl(math.log(lo), math.log(hi)).map(math.exp)


@st.composite
def family_args(draw):
    fam = draw(st.sampled_from(FAMILIES))
    if fam == "uniform":
        a = draw(_fl(-50, 49))
        w = draw(_logfl(1e-2, 50))
        return fam, [a, min(a + w, 50.0)]
    if fam == "gaussian":
        return fam, [draw(_fl(-20, 20)), draw(_logfl(0.05, 20))]
    if fam == "exponential":
        return fam, [draw(_logfl(0.05, 20))]
    if fam == "gamma":
        if draw(st.integers(0, 5)) == 0:       # a sharply peaked prior with whole-number shape and rate
            return fam, [float(draw(st.integers(10, 30))), float(draw(st.integers(5, 20)))]
        alpha = draw(st.one_of(_fl(0.3, 8), st.integers(1, 8).map(float), st.just(1.0)))
        return fam, [alpha, draw(_logfl(0.05, 10))]
    if fam == "beta":
        big = draw(st.integers(0, 5)) == 0          # sharply peaked priors (shape sums in the hundreds) now and then
        a = draw(st.one_of(_fl(0.3, 6), st.integers(1, 6).map(float), st.just(1.0))) if not big else draw(_fl(20, 300))
        b = draw(st.one_of(_fl(0.3, 6), st.integers(1, 6).map(float), st.just(1.0))) if not big else draw(_fl(20, 300))
        return fam, [a, b]
    if fam == "log-uniform":
        a = draw(_logfl(1e-3, 1e2))
        r = draw(_logfl(1.05, 1e3))
        return fam, [a, a * r]
    if fam == "log-gaussian":
        return fam, [draw(_fl(-3, 3)), draw(_logfl(0.1, 2))]


@st.composite
def one_param(draw, idx):
    fam, args = draw(family_args())
    dist, (lo, hi) = ref_dist(fam, args)
    positive = draw(st.booleans())
    cls = draw(st.sampled_from(["interior", "interior", "edge_in", "edge_out", "outside", "on_boundary", "far_tail"]))
    eps = draw(st.sampled_from([1e-3, 1e-6, 1e-9, 1e-12]))
    side = draw(st.sampled_from(["lo", "hi"]))
    if cls == "far_tail" and not (math.isfinite(lo) and math.isfinite(hi)):
        # far out on an unbounded side of the support: tail probabilities down to 1e-80 (densities far below machine
        # epsilon but well inside the representable range)
        q = 10.0 ** (-draw(_fl(5, 80)))
        x = float(dist.isf(q)) if (not math.isfinite(hi) and (math.isfinite(lo) or side == "hi")) else float(dist.ppf(q))
        if not math.isfinite(x):
            x = float(dist.ppf(0.5))
    elif cls == "interior" or cls == "far_tail" or (fam == "gaussian" and cls != "outside") or (fam == "gaussian"):
        u = draw(_fl(1e-4, 1 - 1e-4))
        x = float(dist.ppf(u))
        cls = "interior"
    else:
        finite_sides = [s for s, v in (("lo", lo), ("hi", hi)) if math.isfinite(v)]
        if side not in finite_sides:
            side = finite_sides[0]
        bnd = lo if side == "lo" else hi
        scale = max(abs(bnd), (hi - lo) if math.isfinite(hi - lo) else 1.0, 1e-3)
        sign_in = 1.0 if side == "lo" else -1.0
        if cls == "on_boundary":
            x = bnd
        elif cls == "edge_in":
            x = bnd + sign_in * eps * scale
        elif cls == "edge_out":
            x = bnd - sign_in * eps * scale
        else:
            x = bnd - sign_in * draw(_logfl(1e-2, 30)) * scale
        if x == bnd and cls != "on_boundary":   # eps vanished in rounding: step one ulp to the intended side
            inward = math.inf if side == "lo" else -math.inf
            x = float(np.nextafter(bnd, inward if cls == "edge_in" else -inward))
    return {"name": f"p{idx}", "family": fam, "args": [float(a) for a in args], "positive": bool(positive),
            "int_spelling": draw(st.booleans()),
            "value": float(x), "cls": cls, "eps": eps}


@st.composite
def cases(draw):
    n = draw(st.sampled_from([1, 1, 2, 3, 4]))
    params = [draw(one_param(i)) for i in range(n)]
    surface = draw(st.sampled_from(["check_prior"] * 4 + ["posterior"]))
    case = {"kind": "prior", "params": params, "surface": surface, "log_space": draw(st.booleans()),
            "prior_key_order": list(draw(st.permutations(range(n)))) if draw(st.booleans()) else None}
    if draw(st.integers(0, 2)) == 0:
        case["warmup"] = [draw(one_param(i)) for i in range(n)]
        case["switch"] = draw(st.sampled_from(["assign", "in_place"]))
    return case


# ---------------------------------------------------------------------------------------------------
# property body
_model_cache = {}


def _model(n):
    from bioscrape.types import Model
    if n not in _model_cache:
        _model_cache[n] = Model(species=["X"], reactions=[(["X"], [], "massaction", {"k": "kdeg"})],
                                parameters=[("kdeg", 0.5)] + [(f"p{i}", 1.0) for i in range(4)],
                                initial_condition_dict={"X": 10.0})
    return _model_cache[n]


def _prior_dict(params, order=None):
    """order: the key order of the dictionary (a dictionary's order carries no meaning: parameters are matched by name)."""
    d = {}
    for p in ([params[i] for i in order] if order else params):
        # whole-number arguments are written as Python ints in half of the specifications (['gamma', 20, 10])
        args = [int(a) if (p.get("int_spelling") and float(a) == int(a)) else a for a in p["args"]]
        d[p["name"]] = [p["family"]] + args + (["positive"] if p["positive"] else [])
    return d


def check(case):
    import warnings
    from bioscrape.pid_interfaces import PIDInterface
    res = R()
    params = case["params"]
    M = _model(0)
    names = [p["name"] for p in params]
    prior = _prior_dict(params, case.get("prior_key_order"))
    if case.get("prior_key_order") and list(case["prior_key_order"]) != sorted(case["prior_key_order"]):
        res.label("prior_dictionary_in_another_key_order")
    warm = case.get("warmup")
    if warm:
        # the interface object was used before with other prior specifications for the same parameter names; priors are
        # read from the object's dictionary at every evaluation, so only the current specification may matter
        res.label("interface_used_before_with_other_priors:" + case.get("switch", "assign"))
        wp = [dict(w, name=p["name"]) for w, p in zip(warm, params)]
        pid = PIDInterface(names, M, _prior_dict(wp))
        with warnings.catch_warnings():
            warnings.simplefilter("ignore")
            with np.errstate(all="ignore"):
                for w in wp:
                    pid.check_prior({w["name"]: np.float64(w["value"])})
                pid.check_prior({w["name"]: np.float64(w["value"]) for w in wp})
        if case.get("switch") == "in_place":
            pid.prior.clear()
            pid.prior.update(prior)
        else:
            pid.prior = prior
    else:
        pid = PIDInterface(names, M, prior)
    ref_total = 0.0
    all_inside = True
    near = False
    usable = True
    for p in params:
        fam, args, x = p["family"], p["args"], p["value"]
        inside = in_support(fam, args, x) and not (p["positive"] and x < 0)
        ref = ref_logpdf(fam, args, x) if in_support(fam, args, x) else -math.inf
        if inside and ref < LOGMIN:
            usable = False
        _, (lo, hi) = ref_dist(fam, args)
        for b in (lo, hi):
            if math.isfinite(b) and abs(x - b) <= 1e-3 * max(abs(b), 1e-3, (hi - lo) if math.isfinite(hi - lo) else 1.0):
                near = True
        with warnings.catch_warnings():
            warnings.simplefilter("ignore")
            with np.errstate(all="ignore"):
                lp1 = pid.check_prior({p["name"]: np.float64(x)})
        lp1 = float(lp1)
        if p.get("cls") == "on_boundary":
            res.label("value_exactly_on_support_boundary:" + ("finite_density" if in_support(fam, args, x) else "zero_or_infinite_density"))
        if inside:
            res.label(f"inside:{fam}")
            if ref == -math.inf or ref == math.inf:
                ok = (not math.isfinite(lp1)) or lp1 < LOGMIN or lp1 > 600
            else:
                ok = math.isfinite(lp1) and abs(lp1 - ref) <= 1e-9 * (1 + abs(ref))
            if not ok and ref >= LOGMIN:
                res.fail(("log_density_value", fam), family=fam, args=args, value=x, got=lp1, expected=ref)
            ref_total += ref
        else:
            res.label(f"outside:{fam}" + (":positive_flag" if in_support(fam, args, x) else ""))
            all_inside = False
            if math.isfinite(lp1):
                why = "negative_under_positive_flag" if in_support(fam, args, x) else "outside_support"
                res.fail((why + "_accepted", fam), family=fam, args=args, value=x, got=lp1,
                         expected="non-finite (rejected)")
    if not usable:
        res.skip = "reference log-density below -300"
        return res
    res.nontrivial = near or (not all_inside) or len(params) >= 2
    theta = np.array([p["value"] for p in params], dtype=float)
    with warnings.catch_warnings():
        warnings.simplefilter("ignore")
        with np.errstate(all="ignore"):
            lp = float(pid.check_prior({p["name"]: np.float64(p["value"]) for p in params}))
    if all_inside:
        if math.isfinite(ref_total):
            if not (math.isfinite(lp) and abs(lp - ref_total) <= 1e-9 * (1 + abs(ref_total)) * len(params)):
                if not res.fails:
                    res.fail(("sum_over_parameters",), got=lp, expected=ref_total, params=params)
    else:
        if math.isfinite(lp) and not res.fails:
            res.fail(("vector_outside_support_accepted",), got=lp, params=params)
    if case["surface"] == "posterior":
        res.label("surface:posterior")
        import pandas as pd
        from bioscrape.inference_setup import InferenceSetup
        tp = np.array([0.0, 0.5, 1.0])
        df = pd.DataFrame({"time": tp, "X": 10.0 * np.exp(-0.5 * tp)})
        with warnings.catch_warnings():
            warnings.simplefilter("ignore")
            with np.errstate(all="ignore"):
                pidset = InferenceSetup(Model=M, exp_data=df, measurements=["X"], time_column="time",
                                        params_to_estimate=names, prior=prior,
                                        initial_conditions={"X": 10.0}, sim_type="deterministic", norm_order=2)
                if case.get("log_space") and np.all(theta > 0):
                    # the sampler works on u = log(theta): the prior is the density at exp(u) (which may differ from theta
                    # by an ulp - decisive exactly on a support boundary - so the expectation is recomputed at exp(u))
                    pidset.setup_cost_function(log_space_parameters=True)
                    res.label("surface:posterior:log_space_parameters")
                    u = np.log(theta)
                    eff = np.exp(u)
                    all_inside, ref_total = True, 0.0
                    for p_, v_ in zip(params, eff):
                        ins = in_support(p_["family"], p_["args"], float(v_)) and not (p_["positive"] and v_ < 0)
                        all_inside = all_inside and ins
                        if ins:
                            ref_total += ref_logpdf(p_["family"], p_["args"], float(v_))
                    cost = float(pidset.cost_function(u))
                else:
                    cost = float(pidset.cost_function(theta))
        if all_inside and math.isfinite(ref_total):
            if not (math.isfinite(cost) and abs(cost - ref_total) <= 1e-5 * (1 + abs(ref_total))):
                if not res.fails:
                    res.fail(("posterior_value",), got=cost, expected=ref_total, params=params)
        elif not all_inside:
            if cost != -math.inf and not any(f.sig.startswith(("outside", "negative")) for f in res.fails):
                res.fail(("posterior_not_minus_inf",), got=cost, params=params)
            elif cost != -math.inf:
                pass  # already attributed to the family-level failure above
    return res


def search(ctx):
    n = 400000 if ctx.thorough else 24000
    ctx.run_hypothesis("priors", cases(), check, ctx.share(n * ctx.job.get("scale", 1)))
