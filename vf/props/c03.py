"""C03 - stoichiometry and net rate equations follow the reaction list."""
import math

import numpy as np
from hypothesis import strategies as st

from vf import gen, ref, spec as specmod
from vf.core import R


def _named_params_used(sp):
    names = []
    for rx in sp["reactions"]:
        for v in rx["pd"].values():
            if isinstance(v, str) and v in sp["params"]:
                names.append(v)
        if rx["type"] == "general":
            names.extend(n for n in ref.tree_symbols(rx["tree"]) if n in sp["params"])
        d = rx.get("delay")
        if d:
            names.extend(v for v in d["pd"].values() if isinstance(v, str) and v in sp["params"])
    return sorted(set(names))


def check(case):
    from bioscrape.simulator import ModelCSimInterface, SafeModelCSimInterface
    res = R()
    sp = case["spec"]
    if case["kind"] == "missing":
        drop = case["drop"]
        sp2 = dict(sp, params={k: v for k, v in sp["params"].items() if k != drop})
        res.nontrivial = True
        res.label("missing_parameter")
        for how in ("constructor", "deferred_initialize", "interface_on_uninitialised"):
            try:
                with specmod.quiet():
                    if how == "constructor":
                        specmod.to_model(sp2)
                    elif how == "deferred_initialize":
                        M = specmod.to_model(sp2, initialize=False)
                        M.py_initialize()
                    else:
                        M = specmod.to_model(sp2, initialize=False)
                        ModelCSimInterface(M)
            except (ValueError, KeyError, RuntimeError):
                continue
            res.fail(("missing_parameter_accepted", how), dropped=drop, spec=sp2)
        # a refused model stays refused: the second and third attempt on the same object must fail as well
        # (a refusal that leaves the model flagged as initialised would let NaN rates through afterwards)
        with specmod.quiet():
            M = specmod.to_model(sp2, initialize=False)
        for attempt, what in enumerate(["initialize", "initialize", "interface", "simulate"]):
            try:
                with specmod.quiet():
                    if what == "initialize":
                        M.py_initialize()
                    elif what == "interface":
                        ModelCSimInterface(M)
                    else:
                        from bioscrape.simulator import py_simulate_model
                        py_simulate_model(np.array([0.0, 0.5, 1.0]), Model=M)
            except (ValueError, KeyError, RuntimeError):
                continue
            res.fail(("missing_parameter_accepted_on_a_later_attempt", what), attempt=attempt + 1, dropped=drop, spec=sp2)
            break
        return res

    with specmod.quiet():
        if case.get("refusals"):
            # the reaction list is built call by call, and some calls in between are refused (they name a species that
            # does not exist): a refused reaction is not part of the model, the accepted ones are - in their order
            M = specmod.build_with_refusals(sp, case["refusals"], res)
            if M is None:
                return res
            M.py_initialize()
        else:
            M = specmod.to_model(sp)
    s2i = M.get_species2index()
    if sorted(s2i) != sorted(sp["species"]):
        res.fail(("species_set",), got=sorted(s2i), expected=sorted(sp["species"]))
        return res
    S, Sd = ref.stoich(sp)
    U, Ud = M.py_get_update_array(), M.py_get_delay_update_array()
    nr = len(sp["reactions"])
    if U.shape != (len(s2i), nr) or Ud.shape != (len(s2i), nr):
        res.fail(("update_array_shape",), got=[list(U.shape), list(Ud.shape)], expected=[len(s2i), nr])
        return res
    for s, i in s2i.items():
        for j in range(nr):
            if U[i, j] != S[s][j]:
                res.fail(("immediate_stoichiometry",), species=s, reaction=j, got=float(U[i, j]), expected=S[s][j],
                         rxn=sp["reactions"][j])
            if Ud[i, j] != Sd[s][j]:
                res.fail(("delayed_stoichiometry",), species=s, reaction=j, got=float(Ud[i, j]), expected=Sd[s][j],
                         rxn=sp["reactions"][j])
    if res.fails:
        return res
    with specmod.quiet():
        I = ModelCSimInterface(M)
        Sf = SafeModelCSimInterface(M)
        # an interface is prepared again before every deterministic run it is used for (py_simulate_model does so):
        # preparing it 1..3 times must give the same derivative
        for _ in range(1 + case.get("extra_preps", 0)):
            I.py_prep_deterministic_simulation()
            Sf.py_prep_deterministic_simulation()
    props = M.get_propensities()
    p = np.array(M.get_parameter_values(), dtype=float)
    for pt in case["points"]:
        x = specmod.state_vector(M, pt["state"])
        t = pt["t"]
        own = [float(props[j].py_get_propensity(x, p, t)) for j in range(nr)]
        if not all(math.isfinite(v) for v in own):
            res.skip = "non-finite rate"
            continue
        for label, iface in (("interface", I), ("safe_interface", Sf)):
            if label == "safe_interface":
                # the safe interface's guards (a species at zero is not consumed, a negative propensity counts as 0) must
                # be inactive: every species present, or - where one is absent - every reaction that consumes it at rest
                absent = [s_ for s_, v in pt["state"].items() if v <= 0]
                guard_matters = any(own[j] != 0 and (S[s_][j] < 0 or Sd[s_][j] < 0) for s_ in absent for j in range(nr))
                if guard_matters or any(v < 0 for v in own):
                    continue
                if absent:
                    res.label("safe_interface_with_absent_species")
            dx = np.full(len(x), np.nan)
            iface.py_calculate_deterministic_derivative(x.copy(), dx, t)
            for s, i in s2i.items():
                terms = [(S[s][j] + Sd[s][j]) * own[j] for j in range(nr)]
                exp = sum(terms)
                tol = 1e-12 * sum(abs(v) for v in terms) + 1e-300
                if not abs(dx[i] - exp) <= tol:
                    res.fail(("derivative", label), species=s, got=float(dx[i]), expected=exp, state=pt["state"], t=t,
                             rates=own)
                    break
    # non-triviality
    nt = False
    first_use = []
    for rx in sp["reactions"]:
        for s in rx["r"] + rx["p"] + ((rx.get("delay") or {}).get("r", [])) + ((rx.get("delay") or {}).get("p", [])):
            if s not in first_use:
                first_use.append(s)
        if len(set(rx["r"])) < len(rx["r"]) or len(set(rx["p"])) < len(rx["p"]):
            nt = True
            res.label("repeated_species")
        if set(rx["r"]) & set(rx["p"]):
            nt = True
            res.label("species_on_both_sides")
        if rx.get("delay"):
            nt = True
            res.label("delayed_part", "delay_type:" + rx["delay"]["type"])
        if rx.get("signed"):
            res.label("rate_that_changes_sign")
        res.label("type:" + rx["type"])
    if [s for s in sp["species"] if s in first_use] != first_use:
        nt = True
        res.label("declaration_order_differs")
    res.nontrivial = nt
    return res


@st.composite
def cases(draw):
    sp = draw(gen.structural_models(time=True))
    # rates that change sign (a lumped reversible law kf*A - kr*B is a legitimate deterministic rate): the derivative is
    # still the stoichiometric sum of the rates, whatever their sign
    for rx in sp["reactions"]:
        if rx["type"] == "general" and draw(st.integers(0, 2)) == 0:
            a, c = draw(st.sampled_from(sp["species"])), draw(st.sampled_from(sp["species"]))
            k2 = draw(st.sampled_from([0.5, 1.0, 3.0]))
            kind = draw(st.sampled_from(["reversible", "factor", "negated"]))
            if kind == "reversible":
                rx["tree"] = ["sub", ["mul", gen.num(draw(st.sampled_from([0.5, 1.0, 2.0]))), gen.sym(a)], ["mul", gen.num(k2), gen.sym(c)]]
            elif kind == "factor":
                rx["tree"] = ["mul", rx["tree"], ["sub", gen.sym(a), gen.num(k2)]]
            else:
                rx["tree"] = ["neg", rx["tree"]]
            rx["pd"]["rate"] = ref.show(rx["tree"])
            rx["signed"] = True
    # a delayed part without a delay distribution (delay type "none": delivered with zero delay) is still part of the
    # delayed stoichiometry
    for rx in sp["reactions"]:
        if not rx.get("delay") and draw(st.integers(0, 7)) == 0:
            dr = draw(st.lists(st.sampled_from(sp["species"]), max_size=2))
            dp = draw(st.lists(st.sampled_from(sp["species"]), min_size=0 if dr else 1, max_size=2))
            rx["delay"] = {"type": "none", "r": dr, "p": dp, "pd": {}}
    named = _named_params_used(sp)
    if named and draw(st.integers(0, 4)) == 0:
        return {"kind": "missing", "spec": sp, "drop": draw(st.sampled_from(named))}
    points = []
    for _ in range(draw(st.integers(1, 4))):
        positive = draw(st.booleans())
        state = {s: draw(gen.fl(0.05 if positive else 0.0, 10)) if draw(st.integers(0, 3)) else (1.0 if positive else 0.0)
                 for s in sp["species"]}
        points.append({"state": state, "t": draw(st.sampled_from([0.0, 0.5, 2.0, 5.0]))})
    refusals = []
    if draw(st.integers(0, 5)) == 0:
        for _ in range(draw(st.integers(1, 2))):
            refusals.append([draw(st.integers(0, len(sp["reactions"]))),
                             draw(st.sampled_from(["hill_unknown_species", "massaction_unknown_species",
                                                   "delayed_hill_unknown_species"]))])
    return {"kind": "model", "spec": sp, "points": points, "extra_preps": draw(st.sampled_from([0, 0, 1, 2])),
            "refusals": refusals}


def search(ctx):
    scale = ctx.job.get("scale", 1)
    ctx.run_hypothesis("models", cases(), check, ctx.share((60000 if ctx.thorough else 5000) * scale))
