"""Static per-property metadata used by the parent process (which never imports bioscrape)."""
from types import SimpleNamespace

_DEFAULT_SHARDS = {"quick": 12, "thorough": 16}
_DEFAULT_BUDGET = {"quick": 150, "thorough": 1500}   # seconds per shard and sub-search after which generation stops (never a violation)

META = {}


def _m(pid, rule, assumptions, shards=None, budget=None, exhaustive=False, exhaustive_note=None, flaky_is_violation=False):
    META[pid] = SimpleNamespace(RULE=rule, ASSUMPTIONS=assumptions, SHARDS=shards or _DEFAULT_SHARDS,
                                BUDGET=budget or _DEFAULT_BUDGET, EXHAUSTIVE=exhaustive,
                                EXHAUSTIVE_NOTE=exhaustive_note, FLAKY_IS_VIOLATION=flaky_is_violation)


def meta_for(pid):
    return META[pid]


_COMMON = ["the oracle code in /verif/vf (closed forms, scipy/sympy/mpmath reference computations) is itself correct",
           "generated inputs stay inside the documented input domain described in DESIGN.md section 3.1",
           "absence of violations is only claimed for the cases generated in this run"]

_m("C16",
   "Hypothesis draws 1..4 parameters, each with one of the seven built-in prior families, family parameters, an "
   "optional 'positive' flag and a value of class interior / just inside a support boundary / just outside / clearly "
   "outside; oracle = scipy.stats logpdf per parameter and summed; outside the support (or negative under 'positive') "
   "check_prior must be non-finite and the posterior -inf.  A case is non-trivial when it has a value within 1e-3 "
   "(relative) of a boundary, or outside the support, or >= 2 parameters; distinct by canonical JSON hash.",
   _COMMON + ["values are passed as numpy float64 (as emcee and the suite pass them)",
              "reference log-densities below -300 are not compared (the density's factors underflow or become subnormal there: a range limit, not the property)"])

_m("C01",
   "(a) enumeration: every built-in propensity type x every reactant multiset of order 0..4 over 3 species (both "
   "declaration orders) x integer states {0..3}^k (quick) / {0..4}^k (thorough) x V in {0.5,1,2} x Hill n in {1,2,3}; "
   "(b) Hypothesis: 1..4 reactions of random type/order/products/delay blocks, named or numeric parameters in "
   "[1e-3,1e3], real and integer states in [0,50] incl. 0 and 1e-9, V in (0.1,10).  Every case is evaluated in the "
   "four modes through the bare propensity object, the plain interface and the safe interface (safe only where each "
   "reaction has its full complement of reactants) and compared with the closed forms of vf/ref.py to 1e-10 relative. "
   "Non-trivial: order >= 2, a repeated reactant, V != 1, a Hill type or fractional n; distinct by case hash.",
   _COMMON + ["general propensities are C02's business and are excluded here"],
   exhaustive=True,
   exhaustive_note="the integer grid sub-space (a) is enumerated completely; the real-valued sub-space (b) is sampled")

_m("C20",
   "Hypothesis generates operation lists (add(reaction, requested time before / on / between (offsets .1 .25 .4, "
   "never .5) / beyond the grid, amount 1..3), read-and-advance, copy (continue on copy or original), binomial "
   "partition (continue on a part or the original)) of length <= 40 (quick) / 120 (thorough) over queues with 1..2 "
   "reactions, 2..4 slots, dt = 2^-3..2^2 and starting time a multiple of dt; a dictionary model {absolute slot -> "
   "counts} with the nearest-slot / clamp rule is compared after every operation and by draining at the end; copies, "
   "partition parts and originals left behind are drained at the end to show independence.  Non-trivial: the ring "
   "buffer wrapped with an entry pending across the wrap, or a copy/partition followed by further operations.",
   _COMMON + ["histories are bounded by the stated length", "grid steps are exactly representable (property's own precondition)"])

_m("C03",
   "Hypothesis builds models with 2..5 species declared in a random permutation (unused extras included), 1..5 "
   "reactions with 0..4 reactants / products (repeats, catalysts, empty sides), every propensity type, optional "
   "delayed reactants / products with each delay family; S and S_delay are counted from the spec and compared with "
   "py_get_update_array / py_get_delay_update_array by species name; the derivative reported by the plain and the safe "
   "interface at 1..4 states x times must equal sum_r (S+S_d) x (the model's own rate r); one case in five removes "
   "the value of a named parameter and requires construction / initialisation / interface creation to raise. "
   "Non-trivial: a repeated species, a species on both sides, a delayed part or a declaration order different from "
   "first-use order, or a missing-value case.",
   _COMMON)

_m("C02",
   "Hypothesis generates expression trees of depth <= 5 over + - * / ^ exp log abs Heaviside min max, numbers "
   "(integers, decimals, e-notation), species, parameters, t and volume, with identifiers that include underscores, "
   "digits, the sympy-clash letters C O Q N I E S (as species or parameters) and the legacy _k / |k spelling; the tree "
   "is printed (full or minimal parentheses, ^ or **, Heaviside or heaviside, varied spacing) and evaluated at 5 "
   "points through parse_expression (py_evaluate, py_volume_evaluate), a general propensity inside a Model, an "
   "assignment rule and a StateDependentVolume growth law; oracle = the tree evaluated in 50-digit mpmath, compared "
   "to 1e-8 x max(1, largest intermediate) at points in the finite domain (|Heaviside argument| > 1e-6, "
   "intermediates < 1e8).  One case in three injects an unknown name (must be rejected) or an unsupported "
   "construct (rejected, or still the right value).  The printer itself is cross-checked against Python's parser. "
   "Non-trivial: depth >= 2 with one of min/max/abs/log/exp/Heaviside/t/volume/non-integer power/clash name/legacy "
   "spelling and at least one point in the domain, or any injection case.",
   _COMMON + ["a loud rejection of a valid expression is allowed by the statement and only counted"])

_m("C07",
   "For each generated model (with / without delay reactions x with / without a repeated assignment rule; 24 models "
   "quick, 300 thorough; uniform grids from 0 with 2, 5 or 17 points) the full option lattice stochastic{F,T} x "
   "delay{None,F,T} x safe{F,T} x volume{off, True, 1.0, 2.5, Volume object (+ a dividing volume object in the "
   "thorough tier)} x return_dataframe{T,F} x source{Model, plain interface, safe interface} = 360 (432) combinations "
   "is enumerated completely; each call must return a result (rows = requested times or a prefix on division, exact "
   "time axis, species columns in model order then time (+ volume), first row = initial condition with repeated "
   "assignment rules applied) or raise an explicit option error from py_simulate_model itself.  Non-trivial: "
   "delay=True, a volume, or a pre-built interface; distinct by case hash.",
   _COMMON, exhaustive=True,
   exhaustive_note="the option lattice is enumerated completely for every generated (model, grid); models and grids are sampled")

_m("C05",
   "Hypothesis builds finite-state networks (1..3 species, 1..4 reactions from mass-action shapes of order 1..3 "
   "with repeated reactants and catalysts, the Hill families and rational general rates; every reaction has "
   "#products <= #reactants so the state space is finite; a 'safe' variant lets any type consume and guards it with "
   "the safe interface), initial counts 0..8, rate constants in [0.05,5], grids of 2..6 points in three regimes "
   "(many events per step, several points between events, mixed).  N1 seeded consecutive SSA paths (10k quick / 40k "
   "thorough; model-API surface 1/20 of that) are compared with the master equation solved on the enumerated "
   "state space (exp(Q t) by uniformisation and squaring, vf/cme.py): pooled chi-square on every time-point marginal and every consecutive two-time joint, "
   "two-stage confirmation (p < 1e-4/m then 10x samples p < 1e-9/m); a reported state outside the reachable set is "
   "an exact failure.  Non-trivial: >= 2 reactions and >= 2 states with probability > 5% at some reported time.",
   _COMMON + ["statistical power: a relative bias of ~5% in cells of probability >= 0.1 is rejected; smaller biases pass",
              "state spaces are capped at 400 states", "zero-order inflow (open systems) is not generated"],
   budget={"quick": 240, "thorough": 2400})

_m("C06",
   "Hypothesis builds networks (2..5 species, 1..6 reactions: mass-action shapes of order 0..3, Hill and general "
   "rates, catalytic / zero-order production, optional delay blocks; counts up to 50; non-mass-action consuming "
   "reactions of arbitrary shape only for the safe simulators), usually in instrumented form (reaction r also produces "
   "a private counter N_r, its delayed part a counter D_r), and simulates one seeded path with one of SSA, safe SSA, "
   "volume SSA, safe volume SSA, delay SSA, safe delay SSA, py_simulate_model(safe=True) on grids of 3..30 points. "
   "Checked on all rows: first row = initial state; integrality; exact conservation laws (rational left null space of "
   "[S|S_d]); row differences = sum of counter increments x stoichiometry (delayed part by delivery counters for the "
   "delay simulator, D = N for the others); non-negativity (mass action, or safe mode); persistence of states with "
   "zero total reference propensity; and (1 case in 8) the safe interface's propensity table is exactly 0 for "
   "under-supplied reactions.  Non-trivial: >= 3 events on a network with a conservation law or a non-mass-action rate "
   "in safe mode, or an under-supplied safe-table case.",
   _COMMON + ["delayed reactants may legitimately drive a count negative at delivery: non-negativity is not asserted then"])

_m("C04",
   "Hypothesis builds (L) linear networks (conversions, degradations, zero-order inflow, catalytic production), (N) "
   "nonlinear bounded networks (mass action up to order 3 with repeats, Hill families with integer exponents, rational "
   "general rates, inflow) and (T) explicitly time-dependent smooth rates; 1..4 species, 1..5 reactions, optional "
   "delayed products; rate constants in [0.05,5], initial values in [0,20]; uniform and non-uniform grids from 0 with "
   "2..40 points and horizon <= 5.  Oracle: matrix exponential of the augmented linear system (L) or DOP853 at rtol "
   "1e-11 on the reference right-hand side (N,T; discarded when its 1e-9 and 1e-11 runs disagree by > 1e-7).  The "
   "first row must equal the initial condition exactly, the time axis the request, every other row must agree within "
   "2e-5 (1 + max|x_ref|).  Both py_simulate_model and DeterministicSimulator.py_simulate are driven.  Non-trivial: "
   ">= 2 reactions and (nonlinear, time-dependent, non-uniform grid or delayed part).",
   _COMMON + ["stiff or exploding systems are excluded by construction",
              "Hill exponents are integers here: with a fractional exponent the rate is undefined as soon as the "
              "integrator overshoots below zero, which the property excludes as not well-posed"])

_m("C11",
   "(a) constant volume: finite-state networks as in C05 plus open birth-death families with zero-order inflow "
   "(finite-state projection, lost mass < 1e-12), V in (0.2,5), through VolumeSSASimulator.py_volume_simulate with a "
   "constant Volume object and py_simulate_model(volume=V, stochastic=True); N1 = 10k / 40k seeded paths against the "
   "master equation with volume-scaled reference propensities (two-stage pooled chi-square on marginals and "
   "consecutive joints).  (b) growth and division: StochasticTimeThresholdVolume and StateDependentVolume with growth "
   "rates in [0.01,2], V0 in [0.5,2], division volumes 1.2..4 x V0, noise 0 / 0.05 / 0.2, dt = 2^-4..1, horizons with "
   "and without the division, models with positive propensities and models whose total propensity is or becomes "
   "zero: result is a prefix of the grid, truncated iff flagged divided, V > 0 and non-decreasing, within one step of "
   "V0 e^{gt}; with noise 0 the division step equals the predicted one (+-1 step).  Non-trivial: (a) V != 1 with an "
   "order != 1 or non-mass-action reaction and >= 2 probable states; (b) division inside the horizon or a "
   "zero-propensity model.",
   _COMMON + ["statistical power as C05", "bioscrape's own ln 2 constant (0.69314718056) is used for the reference growth law"],
   budget={"quick": 240, "thorough": 2400})

_m("C10",
   "(paths) Hypothesis builds networks of 1..3 mass-action reactions whose products and/or reactants are delayed "
   "(fixed / Gaussian / Gamma(k>=1) delays from 0.05 dt to 3x the horizon, numeric or named parameters), instrumented "
   "with a firing counter N_r and a delivery counter D_r, on exactly representable grids of 5..60 points, run through "
   "DelaySSASimulator and py_simulate_model(delay=True); exact checks on every row: state = x0 + N x immediate + D x "
   "delayed stoichiometry, D <= N and monotone, at the end D + queued (drained from the returned queue) = N; for "
   "fixed delays N(t - tau - 1.5dt) <= D(t) <= N(t - tau + 1.5dt), nothing delivered when tau exceeds the horizon; "
   "an always-negative Gaussian delay delivers with the firing.  (draws) 20k / 80k py_get_delay draws per parameter "
   "set against scipy.stats norm / gamma (KS, two-stage).  (distribution) all delays zero on the delay simulator, and "
   "SSASimulator / VolumeSSASimulator on delay models, against the master equation of the net network.  Non-trivial: "
   ">= 3 firings of a delayed reaction with a delivery strictly later than the firing; every draw / distribution case.",
   _COMMON + ["statistical power as C05", "slot rounding (nearest vs truncation) is only visible to the sandwich when tau/dt is near .5; it is decided by C20"],
   budget={"quick": 240, "thorough": 2400})

_m("C09",
   "Hypothesis builds (chain) 1..4 rules in dependency order - additive, assignment to a species, assignment to a "
   "parameter that a later species rule reads - over a model with 0..3 reactions that never touch rule targets; "
   "(rate) 0 -> A at rate k*Y or k*P where a repeated rule overrides the raw value of Y / P with c in {0, .5, 2}; "
   "(schedule) a rule X := v scheduled at an interior grid time, a counter X := X+1 with frequency dt, or an ODE rule "
   "with constant rate, on models with 0..3 reactions firing 0.1..50 times per step; grids have exactly representable "
   "steps 2^-4..1 and 4..24 points.  Modes: deterministic (chain, rate), SSA, safe SSA, volume, delay and lineage "
   "single-cell simulation.  Oracles: every repeated species assignment evaluates true on every reported row; A stays "
   "at A0 when the rule zeroes the rate input (all modes) and equals A0 + k c t deterministically; rows before the "
   "scheduled time keep X0 and rows after it show v; the dt counter advances by exactly 1 and the ODE target by "
   "rate x dt between consecutive rows from the second row on.  Non-trivial: >= 2 chained rules, a rate case, or a "
   "schedule case with reaction events between rows.",
   _COMMON + ["how often a dt rule runs at the initial instant is not asserted (the property excludes it)"])

_m("C14",
   "Hypothesis builds models over every propensity type, reaction orders 0..4 with repeats, named and numeric "
   "parameters, optional delay blocks, general rates over + - * / ^ exp log abs min max (no t / volume / Heaviside); "
   "the model is written with write_sbml_model in the deterministic or the stochastic flavour, the file is read back "
   "with libsbml only, and for every reaction: document stoichiometries must equal the multiplicities; every "
   "identifier of the kinetic law must be a species, a global parameter or a local parameter of the document; the "
   "kinetic-law AST, evaluated by our own interpreter at 2..5 states (non-negative reals; integers incl. 0, 1, 2 for "
   "the stochastic export), must equal the model's own rate (py_get_propensity / stochastic probe) to 1e-9.  "
   "Non-trivial: a non-mass-action reaction or an order >= 2 reaction with a repeated reactant.",
   _COMMON + ["bioscrape's annotations are ignored by construction (libsbml + own AST interpreter)"])

_m("C13",
   "Hypothesis assembles SBML Level 3 Version 2 documents with libsbml only (one compartment of size 1; 1..5 species "
   "carrying an initial amount, a zero amount, an initial concentration or nothing; 1..5 global parameters; 0..4 "
   "reactions with stoichiometries 1..3, modifiers and 0..2 local parameters whose ids deliberately collide with "
   "globals or other reactions' locals; kinetic laws from expression trees over + - * / ^ exp ln abs min max; 0..4 "
   "assignment and rate rules in a random interleaving on species that occur in no reaction and on a non-constant "
   "parameter, right-hand sides over symbols no rule assigns).  Oracle: SBML semantics computed from the generated "
   "trees: initial values (amount precedence), global parameter values, stoichiometry of the true reactions, number of "
   "assignment rules, and at 2..6 states the post-rule state and the derivative sum(nu x KL) + rate rules, compared to "
   "1e-9.  A hand-written file with both attributes is a fixed extra case (reader error or amount honoured).  "
   "Non-trivial: a colliding local parameter, assignment and rate rules in one document, a stoichiometry >= 2, or two "
   "different initial-value kinds.",
   _COMMON + ["documents stay inside the documented subset (no events, function definitions, initial assignments, "
              "boundary species); rate rules target species only"])

_m("C12",
   "Hypothesis builds models over every propensity type (numeric and named parameters), orders 0..4, delayed "
   "reactants / products with fixed / Gaussian / Gamma delays, general rates over + - * / ^ exp log abs min max "
   "Heaviside t volume, and 0..3 additive / assignment rules with frequencies repeated / start / dt / a time; the model "
   "is written twice (texts must be identical up to the generated model id) in the deterministic or stochastic flavour, "
   "read back with Model(sbml_filename=...), and compared with the original by behaviour (vf/modelcmp.py): species and "
   "initial values, parameter values, immediate and delayed stoichiometry, each rate in deterministic / volume / "
   "stochastic / stochastic-volume form at 3..6 states and two times, delay classes and ten seeded delay draws, rule "
   "count and frequencies, and the effect of the rule lists at times 0, 1.5 and the scheduled times with rule_step 0 "
   "and 1.  Non-trivial: a non-mass-action or order >= 3 reaction together with a delay or a rule.",
   _COMMON + ["names are alphanumeric SBML identifiers without leading underscore (documented export convention)",
              "an additive rule returning as an equivalent assignment rule is accepted (behavioural comparison)"])

_m("C18",
   "Hypothesis builds smooth networks (1..4 species, 1..4 reactions: mass action of order 0..4 with repeats, the four "
   "Hill types with integer and fractional exponents in [1,3], rational / exponential / logarithmic general rates, "
   "optional delayed products), all rate parameters named and >= 0.1, states in [0.5,10]^n, and asks for the Jacobian "
   "or the sensitivity to one named parameter with one of the four difference schemes.  Oracle: the reference rate "
   "equations (closed forms re-stated in 40-digit mpmath) differentiated numerically at 40 digits; error bound = the "
   "Taylor remainder of the requested scheme for the module's step h = 0.01 (forward/backward h/2 M2, central h^2/6 M3, "
   "fourth order h^4/30 M5, M_q = twice the maximum of the q-th derivative over a 9-point grid of the stencil) + 5e-10 "
   "(rounding to 10 decimals) + 2e-13 sum|terms|/h (cancellation).  Orientation J[i,j] = d f_i / d x_j; the model's "
   "parameter dictionary must be unchanged and a second call must return the same matrix.  Non-trivial: a non-symmetric "
   "Jacobian (or a sensitivity) of a network with a non-vanishing higher derivative, so that stencil, orientation and "
   "scheme order are observable.",
   _COMMON + ["parameters given as numbers are turned into named parameters so that each can be addressed; dummy names are not probed"])

_m("C15",
   "Hypothesis builds mass-action models (2..4 species, 1..4 reactions incl. bimolecular ones, all rate constants named), "
   "1..4 trajectories (a single data frame or a list) with per-trajectory time grids of equal length 3..12 (different "
   "start times and steps), arbitrary data values for every species column, 1..3 measured species in arbitrary order, "
   "norm order 1..3, per-trajectory initial conditions (partial dictionaries) and parameter conditions (same key set; "
   "a separately labelled class with differing key sets), priors from uniform / gaussian / log-uniform with or without "
   "'positive', and sequences of 1..6 parameter vectors with repeats and out-of-support points.  Oracle: LL_data[n,t,m] "
   "equals frame_n[measurement_m][t] exactly; cost = reference log-prior - (sum |data - sim|^p)^(1/p) with sim from "
   "DOP853 (rtol 1e-10) on the reference right-hand side, parameters = defaults <- theta <- condition_n, started at each "
   "trajectory's first time (1e-5 relative); -inf outside the support; a repeated theta gives the same value; permuting "
   "the measurement list, or the trajectories with their conditions and data, leaves the value unchanged.  One case in "
   "six uses the stochastic cost: the reference replays the identical seeded SSA runs on fresh models.  Non-trivial: "
   ">= 2 measured species, or >= 2 trajectories with distinct conditions.",
   _COMMON + ["models have no rules", "the stochastic reference uses bioscrape's own SSA on fresh models (alignment and bookkeeping are what is tested there)"])

_m("C08",
   "Hypothesis generates call histories: a final definition (1..3 species + 0..2 rule-target species, 1..4 bounded "
   "reactions of every propensity type, optionally with delayed products of each delay family, species-assigning rules "
   "of every frequency, named and numeric parameters) is reached through a random order of incremental edits "
   "(_add_species, create_reaction, create_rule, create_parameter / set_parameter / set_params, set_species, incl. "
   "temporary values and names the model does not know yet) interleaved with py_initialize, seeded and unseeded "
   "simulations in eight modes, interface construction, simulations through remembered (possibly stale) interfaces "
   "and re-seeding.  Oracle: at every seeded simulation and in 2..4 modes at the end the outcome equals that of a model "
   "built at once by the constructor from the abstract definition (identical for stochastic modes, 1e-9 relative for "
   "deterministic; also with a permuted species declaration order), two seeded runs are identical, the species and "
   "parameter dictionaries are what the history set, and a remembered interface either raises the documented "
   "'Model has been changed' error or gives the current definition's result.  Non-trivial: a complete definition "
   "with an edit after an initialisation or simulation and at least one simulation before the final comparison.",
   _COMMON + ["histories are bounded by the stated length", "no rule assigns a parameter (property's own precondition)",
              "reaction and rule order are part of the definition; species and parameter order are not"],
   flaky_is_violation=True)

_m("C17",
   "Hypothesis generates three families.  model: bounded networks whose general rates multiply factors over every "
   "expression-node class (pow exp log abs Heaviside min max t volume), every propensity type, delayed products of "
   "each delay family, species rules of every type and frequency (plus structurally arbitrary models with "
   "parameter-assigning rules); optional simulations / value edits / initialisations before cloning; clone chains of "
   "1..3 steps over pickle protocols 2..5 and deepcopy.  lineage: A<->B(+G) lineage models with each growth rule / "
   "event, division rule / event (LineageVolumeSplitter with per-species binomial / perfect / duplicate modes, volume "
   "mode, partition noise) and death rule / event.  result: result objects, cell states, queues, schnitzes, lineages "
   "and experimental lineages from real seeded simulations.  Oracle: vf/modelcmp behavioural comparison, identical "
   "seeded simulations of original and clone in 2..3 modes (single cell + lineage tree for lineage models), equal "
   "event propensities / counts / seeded partitions, equal arrays and link structure for results with links being "
   "identities inside the restored object, and unchanged dictionaries / stoichiometry / seeded output of one side "
   "after an edit (set_parameter, dummy parameter, set_species, create_reaction, create_rule, new parameter) of the "
   "other.  Non-trivial: >= 3 distinct member classes, or a copy of a copy, or a clone taken after an edit or a "
   "simulation; for results a trajectory that moved / a lineage with >= 3 schnitzes.",
   _COMMON + ["lineage models use LineageVolumeSplitter (the other splitters return plain cell states that the lineage "
              "simulator cannot use)", "VolumeCellState.volume_object is not part of the documented state tuple and is not compared"],
   budget={"quick": 200, "thorough": 2400})

_m("C19",
   "Four generated families.  splitter: PerfectBinomialVolumeSplitter, GeneralVolumeSplitter (py_set_partitioning with "
   "perfect / duplicate / binomial lists, partition noise 0..0.4) and LineageVolumeSplitter (per-species modes, default, "
   "volume mode binomial / perfect / duplicate, partition noise 0..0.8) x 1..4 mothers (counts 0..200, volumes 0.5..8) "
   "x 1..12 partitions each: conservation or duplication per mode, 'perfect' within one molecule of the volume "
   "fraction, integrality, non-negativity, volumes summing to (or duplicating) the mother's, daughters' time, mother "
   "left unchanged.  splitter_stat: 10k (quick) / 40k (thorough) seeded partitions per configuration; binomially "
   "partitioned counts against Binomial(n, daughter volume fraction) by chi-square on the pmf (fixed fraction) or "
   "randomized probability-integral transform + KS (noisy fraction), the volume fraction against its uniform law; "
   "two-stage protocol.  lineage: lineage models from vf/lingen.py (A<->B conserving reactions incl. models without "
   "reactions or whose reactions die out, optional inflow species, every growth rule / event, division rule / event "
   "with a LineageVolumeSplitter, optional death rule / event, 1..3 initial cells, 10..48 grid points) simulated from a "
   "seed: mutual mother/daughter links, daughters start at the mother's last time from a valid partition of her last "
   "row under one of the model's division mechanisms, contiguous grid slices, positive volume, integer counts, "
   "per-cell conserved total on every row, frozen state when nothing can react, volume rows following the noise-free "
   "growth law one step behind, records reaching the end of the grid unless divided (or a death mechanism exists). "
   "single: py_SimulateSingleCell (plain and safe): the same per-row invariants, first row = initial condition, "
   "truncated <=> flagged divided or dead, flags only from mechanisms the model has.  Non-trivial: a lineage with "
   ">= 3 schnitzes or a cell whose reactions are exhausted; a single cell that divided, died or has exhausted "
   "reactions; a mother with molecules.",
   _COMMON + ["statistical power: with 10k partitions a binomial fraction that is off by 0.05 is rejected (see DESIGN.md)",
              "lineage models use LineageVolumeSplitter; species assigned by plain rules are excluded from the partition identity",
              "models are built so that lineages stay small; the simulator's explicit 'dividing too fast' rejection is a skip"],
   budget={"quick": 200, "thorough": 2400})


# ---- later extensions of the generators (kept separate so that the original rule texts stay readable) -------------
def _extend(pid, text):
    META[pid].RULE = META[pid].RULE + "  Extended: " + text


_extend("C02", "evaluation points include negative species and parameter values (every point at which the formula is finite).")
_extend("C03", "general rates that change sign (lumped reversible laws, negated rates; the safe interface is compared only "
               "where its guards are inactive) and delayed parts with delay type 'none'.")
_extend("C04", "reactions with a sign-changing lumped reversible rate; a 'pulse' family - a quiet system at steady state hit by "
               "a narrow smooth pulse, simulated with the documented hmax keyword / py_set_hmax, reference integrated with a "
               "matching maximum step.")
_extend("C05", "one network in four has 5..7 reactions; one grid in four starts after the simulation start; the time grid is "
               "passed as a contiguous array, a strided slice or a column of a 2-d array.")
_extend("C07", "the dividing volume object is part of the quick lattice too (432 combinations); the model's assignment rule may "
               "read the time and the volume, and the expected first row is evaluated at the first grid time and at the volume in play.")
_extend("C08", "a third seeded run after using the generator in other ways (an odd number of normal / uniform / exponential / "
               "gamma / erlang / binomial draws) must equal the first; a verdict that varies between executions of one case is "
               "reported with a replay that runs the case repeatedly in one process.  A second sub-search builds "
               "LineageModels incrementally (growth / division / death rules and events, with and without parameters, "
               "added one at a time in random order around py_initialize and seeded lineage / single-cell simulations; in half "
               "of them the base reactions are added one at a time as well, and parameters and initial amounts take temporary "
               "values that are put back before the comparison) "
               "and compares cell counts, per-cell records and the single-cell trace with a LineageModel given the "
               "same definition at once (2.5k quick / 30k thorough histories).")
_extend("C09", "dt counters and ODE rules may target a parameter that a repeated rule mirrors into an observable species; one "
               "case in four extends the constructor-initialised model by an unused parameter before simulating (second initialisation).")
_extend("C11", "the reported grid may start 1, 2 or 5 steps after the simulation start (growth law and division step are counted "
               "from the start of the simulation).")
_extend("C12", "mass-action rate constants are occasionally tiny (1e-13 scale) or many-digit; stored values are compared purely relatively.")
_extend("C13", "a local parameter may carry the id - and the declared value - of a global one that a rule assigns.")
_extend("C14", "mass-action rate constants are occasionally tiny or many-digit; kinetic-law values are compared purely relatively.")
_extend("C16", "values exactly on a support boundary: where the reference density there is finite the log-prior must equal it, "
               "otherwise it must be non-finite; shapes exactly 1 are generated on purpose.")
_extend("C17", "delayed parts with delay type 'none' (also as the only delayed parts of a model); a daughter cell pickled on its "
               "own must keep its mother; hand-made experimental lineages with one-directional links keep exactly those links.")
_extend("C18", "general rates that change sign (lumped reversible laws).")
_extend("C19", "a partition is accepted only under a division mechanism that can have fired for the mother's age and volume "
               "(a noise-free rule only once its threshold is reached); half of the two-mechanism models pair a rule with an event.")


_extend("C01", "one generated model in four builds all its mass-action reactions from one shared parameter-dictionary object "
               "(named rate constant), as user code that re-uses a dict does.")
_extend("C02", "the parsed text is compiled a second time for the reversed declaration order of its species and parameters and "
               "evaluated again; exponents written as ratios of integer literals (X^(1/2)); a root of exactly zero is outside "
               "the finite domain (algebraically equivalent factored forms are undefined there).")
_extend("C03", "interfaces are prepared 1..3 times before the derivative is read; a model refused for a missing value must be "
               "refused again on the second initialisation, on interface creation and on simulation.")
_extend("C04", "surfaces 'simulator_batch' (another model prepared and simulated in between) and 'interface_reused' (one interface "
               "used for a run with tripled parameters - on a two-point grid for the pulse family, which takes the integrator's "
               "retry path - then, after Model.set_params restored the values, for the measured run); one case in four is "
               "preceded by a call on another model with its own loose atol / rtol.")
_extend("C05", "one case in four stretches the time unit by 1e6, 1e13 or 1e-6 (all rate constants divided, grid multiplied): the "
               "reference law is unchanged.")
_extend("C06", "reported grids may start 3 or 8 steps after the simulation start (which makes the delay queue wrap); conservation "
               "laws are compared with the initial state's value; reactant lists name repeated species in any order.")
_extend("C07", "the flag is also given as numpy booleans (576 combinations); after every returned result the same Model / interface "
               "is simulated once more (plain deterministic call) and that first row must still be the initial condition; the "
               "rule chain may contain a parameter-assigning rule that reads the volume.")
_extend("C09", "models whose reactions run out part-way through the run; dt counters written as an additive rule whose target is one "
               "of its summands; a plain repeated rule (short 2-tuple form) declared after the scheduled / dt / ODE rule and "
               "reading reaction species must hold on every row.")
_extend("C10", "delay draws of two delayed reactions with different distributions interleaved on the shared generator, each stream "
               "tested against its own law.")
_extend("C11", "the constant-volume law also through SafeModelCSimInterface.")
_extend("C13", "a species may be named by two speciesReference entries of one side (stoichiometries add).")
_extend("C16", "one case in three evaluates the interface first under another prior specification for the same parameter names "
               "(then assigns or updates the dictionary in place).")
_extend("C18", "one case in two analyses the same model object first at other parameter values (Jacobian or sensitivity), restores "
               "the values with set_params, and only then makes the measured call.")
_extend("C19", "grids with non-dyadic steps (0.1, 0.05, 0.3) and numpy.linspace grids; on grids that are not exactly representable "
               "the growth recurrence allows 0..2 steps between rows (the simulator's own clock drifts by an ulp).")

# fourth wave of seeded changes (DESIGN 13.2)
_extend("C01", "the general mass-action class is also constructed directly at every order 0..4 (a model dispatches orders 0..2 "
               "to specialised classes); in the deterministic and volume modes the safe interface is compared wherever the "
               "consumed species are present at all, i.e. also at fractional concentrations below one copy.")
_extend("C02", "on the model surface the stochastic and stochastic-volume entry points of a general rate must give the same "
               "value; on the rule surface the expression is, in half of the cases, assigned to a parameter that a second rule "
               "copies into the observed species; points whose value is decided by rounding (double evaluation differs from "
               "the 50-digit one by more than 1e-11) are outside the checked domain.")
_extend("C03", "one model in six is built call by call with 1..2 refused create_reaction calls (unknown species) between the "
               "accepted ones.")
_extend("C04", "one case in three sets asymmetric tolerances through the simulator's setter and requires the trajectory to be "
               "identical to the one obtained with the atol / rtol keywords; the linear family's closed form uses a 30-digit "
               "matrix exponential.")
_extend("C06", "one case in four simulates the same model object once before the measured run (same simulator kind, own interface).")
_extend("C07", "the species rule has frequency 'dt' in one model in three (applied in the first row like a repeated rule); "
               "pre-built interfaces are, for half of the models, given their initial state explicitly - as an integer array "
               "or as a buffer that is overwritten afterwards.")
_extend("C08", "all direct simulator runs of one case share one simulator object; one final seed in eighty is a word-boundary "
               "value (2**32, 2**40, 2**63, 2**64 - 1, ...) and its repetition is made in another second.")
_extend("C11", "one growth case in two re-uses a volume object that was initialised and simulated before on a grid with a "
               "4x / 8x / 0.25x step.")
_extend("C12", "one rule in four assigns a parameter with a (mostly non-zero) declared value.")
_extend("C13", "one kinetic law / rule formula in five starts with a unary minus and goes on with further terms.")
_extend("C14", "one case in four changes the named parameters and exports the same model object a second time.")
_extend("C16", "the prior dictionary is given in a permuted key order in half of the cases; a 'far tail' class places values at "
               "tail probabilities 1e-5 .. 1e-80 of unbounded supports; log-densities are compared down to -300.")
_extend("C17", "plain cell states are cloned at times 0, negative and positive with birth times -4 .. 3, the time written by the setter.")
_extend("C18", "one case in five has a rate constant in the thousands (the difference step is small against the value).")
_extend("C19", "one lineage case in four runs on a simulator object that has produced a lineage of the same model before.")
_extend("C12", "one assignment rule in four is written with minimal parentheses and a unary minus in front of a power "
               "(exp(-A^2), -A^2 + f, -(A - B)^2).")

# fifth wave of seeded changes (DESIGN 13.2)
_extend("C02", "one rule-surface case in three makes the expression the rate of an ODE rule (one Euler step).")
_extend("C03", "the safe interface's derivative is also compared at states with absent species, where every reaction that "
               "consumes an absent species is at rest (its guard cannot matter).")
_extend("C06", "under the safe delay simulator one delayed part in two also consumes a species that no rate law reads (its count "
               "may be over-drawn; conservation and the firing / delivery accounting must still hold).")
_extend("C07", "the time grid is, for half of the models, a strided view or a table column; for half of the models the caller "
               "reverses and extends the list returned by get_species_list() before simulating.")
_extend("C09", "one case in three simulates through a pre-built interface (Interface=) instead of Model=.")
_extend("C10", "one delayed part with a delayed reactant in two has no delayed product at all (its delivery counter is a delayed "
               "reactant that counts down from 10^6).")
_extend("C11", "one constant-volume case in four requests unevenly spaced times, some closer together than the volume tick.")
_extend("C12", "one general rate in four carries a factor exp(-A^2) written with minimal parentheses.")
_extend("C13", "one global parameter in six is negative.")
_extend("C14", "one case in six builds the model call by call with refused create_reaction calls in between; one in six has a "
               "named parameter that is exactly zero; every global parameter of the document must carry a value.")
_extend("C16", "whole-number prior arguments are written as Python ints in half of the specifications; one gamma prior in six "
               "has a whole-number shape 10..30 and rate 5..20.")
_extend("C18", "half of the models with a rule-assigned species carry a second rule listed before the rule it reads from.")
_extend("C19", "one statistical splitter case in four uses amounts one ulp below a whole number.")
_extend("C20", "the starting time is offset from the multiples of the grid step by 0, 1/8, 1/4 or 1/2 of a step.")

# wave 6
_extend("C07", "every second model with a rule has a time-reading rule that assigns a parameter and is listed AFTER the species "
               "rule that reads the parameter (declared value = the rule's value at t = 0); half of those models declare more "
               "parameters than species.")
_extend("C12", "one delayed reaction in four has no delayed reactants and no delayed products (it keeps its delay type and "
               "parameters through the round trip).")
_extend("C14", "a Hill law whose only recorded fault is the literal `n` is evaluated further with n read as the Hill exponent; "
               "every Hill law must equal the model's rate or exactly the recorded deviation (K for K^n) - any other value is "
               "reported under its own signature.")
