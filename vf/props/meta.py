"""Static per-property metadata used by the parent process (which never imports bioscrape)."""
from types import SimpleNamespace

_DEFAULT_SHARDS = {"quick": 12, "thorough": 16}
_DEFAULT_BUDGET = {"quick": 150, "thorough": 1500}   # seconds per shard after which generation stops (never a violation)

META = {}


def _m(pid, rule, assumptions, shards=None, budget=None, exhaustive=False, exhaustive_note=None):
    META[pid] = SimpleNamespace(RULE=rule, ASSUMPTIONS=assumptions, SHARDS=shards or _DEFAULT_SHARDS,
                                BUDGET=budget or _DEFAULT_BUDGET, EXHAUSTIVE=exhaustive,
                                EXHAUSTIVE_NOTE=exhaustive_note)


def meta_for(pid):
    return META[pid]


_COMMON = ["the oracle code in /verif/vf (closed forms, scipy/sympy/mpmath reference computations) is itself correct",
           "generated inputs stay inside the documented input domain described in DESIGN.md section 3.1",
           "absence of violations is only claimed for the cases generated in this run"]

_m("C16",
   "Hypothesis draws 1..4 parameters, each with one of the seven built-in prior families, family parameters, an "
   "optional 'positive' flag and a value of class interior / just inside a support boundary / just outside / clearly "
   "outside; oracle = scipy.stats logpdf per parameter and summed; outside the support (or negative under 'positive') "
   "check_prior must be non-finite and the posterior -inf.  A case is non-trivial when it has a value within 1e-3 "
   "(relative) of a boundary, or outside the support, or >= 2 parameters; distinct by canonical JSON hash.",
   _COMMON + ["values are passed as numpy float64 (as emcee and the suite pass them)",
              "reference log-densities below -600 are not generated (density underflow is a range limit, not the property)"])
