"""Reference semantics written from the documentation and the property statements - never from the
implementation: closed-form rate laws in the four evaluation modes, expression trees (evaluated, and
printed to strings; strings are never parsed here), stoichiometry by counting, right-hand sides.

Expression trees are JSON lists:
  ["num", 2.5] ["sym", "A"] ["t"] ["vol"]
  ["add", a, b, ...] ["mul", a, b, ...] ["sub", a, b] ["div", a, b] ["neg", a] ["pow", a, b]
  ["exp", a] ["log", a] ["abs", a] ["step", a] ["min", a, b, ...] ["max", a, b, ...]
"""
import math

MODES = ("det", "vol", "stoch", "stochvol")
HILL_TYPES = ("hillpositive", "hillnegative", "proportionalhillpositive", "proportionalhillnegative")
PROP_TYPES = ("massaction",) + HILL_TYPES + ("general",)


class Undefined(Exception):
    """The expression has no finite real value at this point."""


# ---------------------------------------------------------------------------------------------------
# expression trees
def eval_tree(tree, env, t=0.0, vol=1.0, mp=None, track=None):
    """Evaluate a tree.  env: name -> value.  mp: mpmath module (context already set) or None for floats.
    track: optional dict collecting 'maxabs' (largest intermediate magnitude) and 'minstep' (smallest
    |argument| of a Heaviside)."""
    op = tree[0]

    def rec(x):
        return eval_tree(x, env, t, vol, mp, track)

    def note(v):
        if track is not None:
            a = abs(float(v))
            if not math.isfinite(a):
                raise Undefined("non-finite intermediate")
            track["maxabs"] = max(track.get("maxabs", 0.0), a)
            if v != 0:
                track["minabs"] = min(track.get("minabs", math.inf), abs(v))
        return v

    conv = (lambda x: mp.mpf(x)) if mp is not None else float
    try:
        if op == "num":
            return note(conv(tree[1]))
        if op == "sym":
            return note(conv(env[tree[1]]))
        if op == "t":
            return note(conv(t))
        if op == "vol":
            return note(conv(vol))
        if op == "add":
            v = conv(0)
            for a in tree[1:]:
                v = v + rec(a)
            return note(v)
        if op == "mul":
            v = conv(1)
            for a in tree[1:]:
                v = v * rec(a)
            return note(v)
        if op == "sub":
            return note(rec(tree[1]) - rec(tree[2]))
        if op == "div":
            d = rec(tree[2])
            if d == 0:
                raise Undefined("division by zero")
            return note(rec(tree[1]) / d)
        if op == "neg":
            return note(-rec(tree[1]))
        if op == "pow":
            b, e = rec(tree[1]), rec(tree[2])
            if b == 0 and e <= 0:
                raise Undefined("0^nonpositive")
            if b < 0 and float(e) != int(float(e)):
                raise Undefined("negative base, fractional exponent")
            if track is not None and b == 0 and float(e) != int(float(e)):
                # a root of exactly zero: a product such as (-1) * 0 under a root is 0 as written, but any algebraically
                # equivalent factored form passes through the root of a negative number
                track["root_of_zero"] = True
            if mp is not None:
                v = mp.power(b, e)
                if isinstance(v, mp.mpc):
                    if v.imag != 0:
                        raise Undefined("complex power")
                    v = v.real
                return note(v)
            return note(math.pow(b, e))
        if op == "exp":
            a = rec(tree[1])
            if float(a) > 700:
                raise Undefined("exp overflow")
            return note(mp.exp(a) if mp is not None else math.exp(a))
        if op == "log":
            a = rec(tree[1])
            if a <= 0:
                raise Undefined("log of non-positive")
            return note(mp.log(a) if mp is not None else math.log(a))
        if op == "abs":
            return note(abs(rec(tree[1])))
        if op == "step":
            a = rec(tree[1])
            if track is not None:
                track["minstep"] = min(track.get("minstep", math.inf), abs(float(a)))
            return note(conv(1) if a >= 0 else conv(0))
        if op == "min":
            return note(min(rec(a) for a in tree[1:]))
        if op == "max":
            return note(max(rec(a) for a in tree[1:]))
    except (OverflowError, ZeroDivisionError, ValueError) as e:
        raise Undefined(str(e))
    raise ValueError(f"unknown node {op}")


def tree_symbols(tree, acc=None):
    acc = set() if acc is None else acc
    if tree[0] == "sym":
        acc.add(tree[1])
    elif tree[0] not in ("num", "t", "vol"):
        for a in tree[1:]:
            tree_symbols(a, acc)
    return acc


def tree_ops(tree, acc=None):
    acc = set() if acc is None else acc
    acc.add(tree[0])
    if tree[0] not in ("num", "sym", "t", "vol"):
        for a in tree[1:]:
            tree_ops(a, acc)
    return acc


def tree_depth(tree):
    if tree[0] in ("num", "sym", "t", "vol"):
        return 0
    return 1 + max(tree_depth(a) for a in tree[1:])


def _num_str(x):
    if float(x) == int(float(x)) and abs(float(x)) < 1e15:
        return str(int(float(x)))
    return repr(float(x))


def show(tree, pow_op="^", step_name="Heaviside", rename=None):
    """Fully parenthesised, unambiguous rendering (safe under every parser's precedence rules)."""
    op = tree[0]

    def s(x):
        return show(x, pow_op, step_name, rename)

    if op == "num":
        v = tree[1]
        txt = tree[2] if len(tree) > 2 else _num_str(v)
        return f"({txt})" if txt.startswith("-") else txt
    if op == "sym":
        return (rename or {}).get(tree[1], tree[1])
    if op == "t":
        return "t"
    if op == "vol":
        return "volume"
    if op == "add":
        return "(" + " + ".join(s(a) for a in tree[1:]) + ")"
    if op == "mul":
        return "(" + " * ".join(s(a) for a in tree[1:]) + ")"
    if op == "sub":
        return f"({s(tree[1])} - {s(tree[2])})"
    if op == "div":
        return f"({s(tree[1])} / {s(tree[2])})"
    if op == "neg":
        return f"(-{s(tree[1])})"
    if op == "pow":
        return f"({s(tree[1])}{pow_op}{s(tree[2])})"
    if op in ("exp", "log", "abs"):
        return f"{op}({s(tree[1])})"
    if op == "step":
        return f"{step_name}({s(tree[1])})"
    if op in ("min", "max"):
        return f"{op}(" + ", ".join(s(a) for a in tree[1:]) + ")"
    raise ValueError(op)


# ---------------------------------------------------------------------------------------------------
# rate laws
def _falling(s, m):
    v = 1.0
    for j in range(m):
        v *= max(s - j, 0.0)
    return v


def pval(spec, entry):
    """A propensity/delay dict entry is either a number or the name of a model parameter."""
    if isinstance(entry, str):
        return float(spec["params"][entry])
    return float(entry)


def rate(spec, rxn, state, t=0.0, mode="det", vol=1.0, params=None):
    """Closed-form rate of one reaction of a spec.  state: species name -> value."""
    sp = dict(spec)
    if params is not None:
        sp = dict(spec, params=params)
    typ = rxn["type"]
    pd = rxn["pd"]
    volume_mode = mode in ("vol", "stochvol")
    stochastic = mode in ("stoch", "stochvol")
    if typ == "massaction":
        k = pval(sp, pd["k"])
        reactants = rxn["r"] if "species" not in pd else [s for s in pd["species"].split("*") if s.strip()]
        reactants = [s.strip() for s in reactants]
        order = len(reactants)
        v = k
        for s in sorted(set(reactants)):
            m = reactants.count(s)
            v *= _falling(state[s], m) if stochastic else state[s] ** m
        if volume_mode:
            v = v * vol if order == 0 else v / vol ** (order - 1)
        return v
    if typ in HILL_TYPES:
        k, K, n = pval(sp, pd["k"]), pval(sp, pd["K"]), pval(sp, pd["n"])
        x = state[pd["s1"]]
        if volume_mode:
            x = x / vol
        h = (x / K) ** n
        v = k * h / (1 + h) if "positive" in typ else k / (1 + h)
        if typ.startswith("proportional"):
            v *= state[pd["d"]]
        return v
    if typ == "general":
        env = dict(sp["params"])
        env.update(state)
        return eval_tree(rxn["tree"], env, t, vol if volume_mode else 1.0)
    raise ValueError(typ)


# ---------------------------------------------------------------------------------------------------
# stoichiometry
def stoich(spec):
    """(S, S_delay) as dict species -> list over reactions, counted from the reaction lists."""
    S = {s: [0] * len(spec["reactions"]) for s in spec["species"]}
    Sd = {s: [0] * len(spec["reactions"]) for s in spec["species"]}
    for j, rx in enumerate(spec["reactions"]):
        for s in rx["r"]:
            S[s][j] -= 1
        for s in rx["p"]:
            S[s][j] += 1
        d = rx.get("delay")
        if d:
            for s in d.get("r", []):
                Sd[s][j] -= 1
            for s in d.get("p", []):
                Sd[s][j] += 1
    return S, Sd


def rhs(spec, state, t=0.0, mode="det", vol=1.0, params=None):
    """dx/dt by name: sum over reactions of (immediate + delayed stoichiometry) x rate."""
    S, Sd = stoich(spec)
    rates = [rate(spec, rx, state, t, mode, vol, params) for rx in spec["reactions"]]
    return {s: sum((S[s][j] + Sd[s][j]) * rates[j] for j in range(len(rates))) for s in spec["species"]}


# ---------------------------------------------------------------------------------------------------
# precedence-aware printer (minimal parentheses): python/sympy precedence, which bioscrape's parser follows
_ATOMS = ("num", "sym", "t", "vol", "exp", "log", "abs", "step", "min", "max")


def show_min(tree, pow_op="^", step_name="Heaviside", rename=None, sp=" "):
    def s(x):
        return show_min(x, pow_op, step_name, rename, sp)

    def par(x):
        return "(" + s(x) + ")"

    def atom(x):
        if x[0] == "num":
            txt = x[2] if len(x) > 2 else _num_str(x[1])
            return not txt.startswith("-")
        return x[0] in _ATOMS

    op = tree[0]
    if op in ("num", "sym", "t", "vol", "exp", "log", "abs", "step", "min", "max"):
        if op in ("exp", "log", "abs"):
            return f"{op}({s(tree[1])})"
        if op == "step":
            return f"{step_name}({s(tree[1])})"
        if op in ("min", "max"):
            return f"{op}(" + f",{sp}".join(s(a) for a in tree[1:]) + ")"
        return show(tree, pow_op, step_name, rename)
    if op == "add":
        parts = [s(tree[1]) if tree[1][0] != "neg" or True else par(tree[1])]
        for a in tree[2:]:
            parts.append(par(a) if a[0] in ("neg",) or (a[0] == "num" and not atom(a)) else s(a))
        return f"{sp}+{sp}".join(parts)
    if op == "sub":
        left = s(tree[1])
        right = par(tree[2]) if tree[2][0] in ("add", "sub", "neg") or not (tree[2][0] != "num" or atom(tree[2])) else s(tree[2])
        return f"{left}{sp}-{sp}{right}"
    if op == "mul":
        parts = []
        for i, a in enumerate(tree[1:]):
            need = a[0] in ("add", "sub") or (i > 0 and a[0] in ("neg", "div")) or (a[0] == "num" and not atom(a) and i > 0)
            parts.append(par(a) if need else s(a))
        return f"{sp}*{sp}".join(parts)
    if op == "div":
        a, b = tree[1], tree[2]
        left = par(a) if a[0] in ("add", "sub") else s(a)
        right = par(b) if b[0] in ("add", "sub", "mul", "div", "neg") or (b[0] == "num" and not atom(b)) else s(b)
        return f"{left}{sp}/{sp}{right}"
    if op == "neg":
        a = tree[1]
        return "-" + (s(a) if atom(a) or a[0] == "pow" else par(a))
    if op == "pow":
        a, b = tree[1], tree[2]
        base = s(a) if atom(a) else par(a)
        expo = s(b) if atom(b) else par(b)
        return f"{base}{pow_op}{expo}"
    raise ValueError(op)
