"""Hypothesis strategies shared by the property modules.  Construction over rejection: networks are
built so that they satisfy their structural constraints (boundedness, non-negativity) by design."""
import keyword
import math

import sympy
from hypothesis import strategies as st

from vf import ref

RESERVED = {"t", "volume", "exp", "log", "ln", "abs", "min", "max", "Heaviside", "heaviside", "sqrt", "e", "pi"}


def name_ok(n):
    return (n not in RESERVED and not keyword.iskeyword(n) and not hasattr(sympy, n) and not n.startswith("DummyVar_")
            and n not in ("C", "O", "Q", "N", "I", "E", "S"))


SPECIES_POOL = [n for n in ["A", "B", "G", "X", "Y", "Z", "P1", "mR", "Pr", "X1", "Y2", "Ab", "Rep", "mRNA", "S1",
                            "T7", "dna", "Xa", "Zq", "W", "H2", "cI", "tetR", "U"] if name_ok(n)]
PARAM_POOL = [n for n in ["k", "k1", "k2", "kf", "kr", "Kd", "Km", "n1", "a1", "b2", "kdeg", "ktx", "Vm", "d0", "g1",
                          "h", "u", "w3", "c5", "r", "q7", "ka", "kb", "Kh", "nh", "tau", "sig", "th"] if name_ok(n)]


def fl(lo, hi):
    return st.floats(min_value=lo, max_value=hi, allow_nan=False, allow_infinity=False)


def logfl(lo, hi):
    return fl(math.log(lo), math.log(hi)).map(lambda x: float(f"{math.exp(x):.6g}"))


def nice(lo, hi):
    """Floats with few digits (readable replay files, exact decimal round trips)."""
    # magnitudes below 1e-6 collapse to 0: denormal-range values (2.2e-308) probe the floating-point range of
    # integrators and of libsbml's number reader, not the properties
    return fl(lo, hi).map(lambda x: 0.0 if abs(x) < 1e-6 else float(f"{x:.4g}")).filter(lambda x: lo <= x <= hi)


def amount(hi, integer_bias=True):
    """An initial amount: exactly 0, a small integer, or a real >= 1e-3 (no denormal-range values: the integrator's
    behaviour at 1e-308 is a floating-point range question, not a property of the model)."""
    parts = [st.just(0.0), st.integers(0, int(hi)).map(float), fl(1e-3, hi).map(lambda x: float(f"{x:.4g}"))]
    return st.one_of(*parts)


class Builder:
    """Incrementally builds a spec inside a composite strategy."""

    def __init__(self, draw, species, named_params=True):
        self.draw = draw
        self.species = list(species)
        self.params = {}
        self.reactions = []
        self.rules = []
        self.named_params = named_params
        self._pnames = [p for p in PARAM_POOL if p not in self.species]

    def value_entry(self, strat, hint=None):
        """A propensity-dict entry: a number, or the name of a (new or existing) named parameter."""
        v = self.draw(strat)
        if not self.named_params or self.draw(st.integers(0, 2)) == 0:
            return v
        return self.new_param(v, hint)

    def new_param(self, value, hint=None):
        free = [p for p in self._pnames if p not in self.params]
        if not free:
            name = f"pz{len(self.params)}"
        else:
            name = free[self.draw(st.integers(0, min(len(free), 6) - 1))]
        self.params[name] = value
        return name

    def spec(self, x0):
        return {"species": list(self.species), "x0": dict(x0), "params": dict(self.params),
                "reactions": list(self.reactions), "rules": list(self.rules)}


def hill_n():
    return st.one_of(st.sampled_from([1.0, 2.0, 3.0, 4.0]), nice(0.5, 3.5))


def massaction(b, reactants, products, k=None):
    return {"r": list(reactants), "p": list(products), "type": "massaction",
            "pd": {"k": b.value_entry(logfl(0.05, 5)) if k is None else k}, "delay": None}


def hill(b, typ, reactants, products, s1, d=None):
    pd = {"k": b.value_entry(logfl(0.05, 5)), "K": b.value_entry(logfl(0.3, 8)), "n": b.value_entry(hill_n()),
          "s1": s1}
    if typ.startswith("proportional"):
        pd["d"] = d
    return {"r": list(reactants), "p": list(products), "type": typ, "pd": pd, "delay": None}


def general(reactants, products, tree):
    return {"r": list(reactants), "p": list(products), "type": "general", "pd": {"rate": ref.show(tree)},
            "tree": tree, "delay": None}


def num(x):
    return ["num", float(x)]


def sym(n):
    return ["sym", n]


def draw_delay(b, species, allow=("fixed", "gaussian", "gamma"), scale=(0.05, 5.0), allow_empty=False):
    """A delay block with delayed reactants / products drawn from `species` (`allow_empty`: both lists may be empty - a
    delayed reaction that queues nothing is a valid model and keeps its delay type and parameters)."""
    draw = b.draw
    typ = draw(st.sampled_from(list(allow)))
    dr = draw(st.lists(st.sampled_from(species), max_size=2))
    dp = draw(st.lists(st.sampled_from(species), min_size=0 if (dr or allow_empty) else 1, max_size=2))
    if allow_empty and draw(st.integers(0, 3)) == 0:
        dr, dp = [], []
    lo, hi = scale
    if typ == "fixed":
        pd = {"delay": b.value_entry(logfl(lo, hi))}
    elif typ == "gaussian":
        pd = {"mean": b.value_entry(logfl(lo, hi)), "std": b.value_entry(logfl(lo / 5, hi / 3))}
    else:
        pd = {"k": b.value_entry(st.one_of(st.sampled_from([1.0, 2.0, 3.0]), nice(1.0, 6.0))),
              "theta": b.value_entry(logfl(lo / 2, hi / 2))}
    return {"type": typ, "r": dr, "p": dp, "pd": pd}


@st.composite
def species_names(draw, lo=1, hi=4):
    n = draw(st.integers(lo, hi))
    start = draw(st.integers(0, len(SPECIES_POOL) - 1))
    step = draw(st.sampled_from([1, 3, 5, 7]))
    names = []
    i = start
    while len(names) < n:
        nm = SPECIES_POOL[i % len(SPECIES_POOL)]
        if nm not in names:
            names.append(nm)
        i += step
    return names


def dyadic_grid(draw, min_pts=3, max_pts=20, steps=(0.0625, 0.125, 0.25, 0.5, 1.0, 2.0)):
    """Uniform grid from 0 with an exactly representable step."""
    dt = draw(st.sampled_from(list(steps)))
    n = draw(st.integers(min_pts, max_pts))
    return [i * dt for i in range(n)]


# ---------------------------------------------------------------------------------------------------
# general-rate templates (non-negative on the non-negative orthant; every symbol is a species or a parameter)
def positive_tree(b, species, smooth=False, time=False, step=True):
    """A non-negative rate expression over `species`; parameters are created in the builder as needed."""
    draw = b.draw
    s1 = sym(draw(st.sampled_from(species)))
    s2 = sym(draw(st.sampled_from(species)))
    k = sym(b.new_param(draw(logfl(0.05, 5))))
    K = sym(b.new_param(draw(logfl(0.3, 8))))
    choices = ["mm", "inhib", "prod_sat", "poly", "expdecay", "ratio2", "log1p"]
    if not smooth:
        choices += ["min", "max", "absdiff"] + (["step"] if step else [])
    if time:
        choices += ["t_decay", "t_sat"]
    c = draw(st.sampled_from(choices))
    if c == "mm":
        return ["div", ["mul", k, s1], ["add", K, s1]]
    if c == "inhib":
        return ["div", k, ["add", num(1), s1, s2]]
    if c == "prod_sat":
        return ["div", ["mul", k, s1, s2], ["add", K, s1]]
    if c == "poly":
        return ["mul", k, ["add", s1, num(draw(st.sampled_from([0.5, 1.0, 2.0])))]]
    if c == "expdecay":
        return ["mul", k, ["exp", ["neg", ["div", s1, K]]]]
    if c == "ratio2":
        return ["div", ["mul", k, ["pow", s1, num(2)]], ["add", ["pow", K, num(2)], ["pow", s1, num(2)]]]
    if c == "log1p":
        return ["mul", k, ["log", ["add", num(1), s1]]]
    if c == "min":
        return ["mul", k, ["min", s1, K]]
    if c == "max":
        return ["mul", k, ["max", s1, s2]]
    if c == "absdiff":
        return ["mul", k, ["abs", ["sub", s1, K]]]
    if c == "step":
        return ["mul", k, ["step", ["sub", s1, num(draw(st.sampled_from([0.5, 1.5, 2.5])))]]]
    if c == "t_decay":
        return ["mul", k, s1, ["exp", ["neg", ["mul", num(draw(st.sampled_from([0.25, 0.5, 1.0]))), ["t"]]]]]
    if c == "t_sat":
        return ["div", ["mul", k, ["t"]], ["add", num(1), ["t"]]]
    raise ValueError(c)


def any_reaction(b, species, types=ref.PROP_TYPES, max_reactants=4, max_products=4, delay_prob=4, smooth=False,
                 time=False, step=True, empty_delay=False):
    """A structurally arbitrary reaction (no dynamical constraints)."""
    draw = b.draw
    typ = draw(st.sampled_from(list(types)))
    reactants = draw(st.lists(st.sampled_from(species), max_size=max_reactants))
    products = draw(st.lists(st.sampled_from(species), max_size=max_products))
    if typ == "massaction":
        rx = massaction(b, reactants, products)
    elif typ in ref.HILL_TYPES:
        rx = hill(b, typ, reactants, products, draw(st.sampled_from(species)), draw(st.sampled_from(species)))
    else:
        rx = general(reactants, products, positive_tree(b, species, smooth=smooth, time=time, step=step))
    if delay_prob and draw(st.integers(0, delay_prob - 1)) == 0:
        rx["delay"] = draw_delay(b, species, allow_empty=empty_delay)
    return rx


@st.composite
def structural_models(draw, min_rx=1, max_rx=5, types=ref.PROP_TYPES, delay_prob=4, smooth=False, time=False,
                      max_species=5, integer_x0=False, step=True, empty_delay=False):
    species = draw(species_names(2, max_species))
    species = list(draw(st.permutations(species)))
    b = Builder(draw, species)
    for _ in range(draw(st.integers(min_rx, max_rx))):
        b.reactions.append(any_reaction(b, species, types, delay_prob=delay_prob, smooth=smooth, time=time, step=step,
                                        empty_delay=empty_delay))
    if integer_x0:
        x0 = {s: float(draw(st.integers(0, 12))) for s in species}
    else:
        x0 = {s: draw(st.one_of(st.integers(0, 12).map(float), nice(0, 12))) for s in species}
    return b.spec(x0)


# ---------------------------------------------------------------------------------------------------
# finite-state networks for master-equation comparisons: every reaction has #products <= #reactants, so the total
# molecule count never grows; non-mass-action rates vanish when a (multiplicity-1) reactant is absent.
def finite_reaction(b, species, types=("massaction", "hill", "general"), safe=False):
    rx = _finite_reaction(b, species, types, safe)
    if rx["type"] == "massaction" and len(rx["r"]) >= 3:
        # the order in which a reactant list names its species is immaterial (A + B + A is 2A + B)
        rx["r"] = list(b.draw(st.permutations(rx["r"])))
    return rx


def _finite_reaction(b, species, types=("massaction", "hill", "general"), safe=False):
    draw = b.draw
    S = species

    def pick():
        return draw(st.sampled_from(S))

    fam = draw(st.sampled_from(["ma"] * 5 + (["hill"] * 2 if "hill" in types else []) + (["general"] * 2 if "general" in types else [])))
    if fam == "ma":
        shape = draw(st.sampled_from(["conv", "deg", "dimer", "dimer_deg", "bi", "bi_cat", "tri_rep", "tri3", "cat_conv"]))
        a, c, e = pick(), pick(), pick()
        if shape == "conv":
            return massaction(b, [a], [c] if c != a else [])
        if shape == "deg":
            return massaction(b, [a], [])
        if shape == "dimer":
            return massaction(b, [a, a], [c])
        if shape == "dimer_deg":
            return massaction(b, [a, a], draw(st.sampled_from([[], [a]])))
        if shape == "bi":
            return massaction(b, [a, c], [e])
        if shape == "bi_cat":
            return massaction(b, [a, c], [a])
        if shape == "tri_rep":
            return massaction(b, [a, a, c], draw(st.sampled_from([[e], [a, c], [e, e]])))
        if shape == "tri3":
            return massaction(b, [a, a, a], draw(st.sampled_from([[c], [a], []])))
        return massaction(b, [a, e], [c, e])
    if fam == "hill":
        typ = draw(st.sampled_from(list(ref.HILL_TYPES)))
        a, c, s1 = pick(), pick(), pick()
        prods = [c] if c != a else []
        if typ == "hillpositive":
            return hill(b, typ, [a], prods, a)               # rate vanishes with the consumed species
        if safe:                                              # safe mode: any type may consume, the interface guards it
            return hill(b, typ, [a], prods, s1, pick())
        if typ == "hillnegative":                             # k/(1+..) does not vanish with its reactant: use the
            typ = "proportionalhillnegative"                  # proportional form outside safe mode
        return hill(b, typ, [a], prods, s1, a)               # proportional: d is the consumed species
    a, c, e = pick(), pick(), pick()
    k = sym(b.new_param(draw(logfl(0.05, 5))))
    K = sym(b.new_param(draw(logfl(0.3, 8))))
    shape = draw(st.sampled_from(["mm", "prod_sat", "sq_sat"]))
    if shape == "mm":
        return general([a], [c] if c != a else [], ["div", ["mul", k, sym(a)], ["add", K, sym(a)]])
    if shape == "prod_sat":
        if a == c:
            return general([a], [], ["div", ["mul", k, sym(a)], ["add", K, sym(a)]])
        return general([a, c], [e], ["div", ["mul", k, sym(a), sym(c)], ["add", num(1), sym(a)]])
    return general([a], [c] if c != a else [], ["div", ["mul", k, sym(a), sym(a)], ["add", K, sym(a)]])


@st.composite
def finite_networks(draw, max_species=3, max_rx=4, max_count=8, types=("massaction", "hill", "general"), min_rx=1,
                    safe=False):
    species = draw(species_names(1, max_species))
    b = Builder(draw, species)
    for _ in range(draw(st.integers(min_rx, max_rx))):
        b.reactions.append(finite_reaction(b, species, types, safe))
    x0 = {s: float(draw(st.integers(0, max_count))) for s in species}
    if all(v == 0 for v in x0.values()):
        x0[species[0]] = float(draw(st.integers(1, max_count)))
    return b.spec(x0)
