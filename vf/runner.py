"""Parent process of a check: build, known findings, regression replays, sharded search with crash
isolation, evidence, protocol lines, exit code.

exit 0: held on everything explored (KNOWN-FINDING lines possible)
exit 1: at least one unlisted violation (VIOLATION property=<id> replay=<path> per root cause)
exit 2: harness error (build failure, worker error, unreproducible crash, invalid evidence)
"""
import argparse
import glob
import hashlib
import importlib
import json
import os
import shutil
import signal
import subprocess
import sys
import time

ROOT = os.path.dirname(os.path.dirname(os.path.abspath(__file__)))
# Sensitivity experiments only (never set by a registered command): VERIF_REPO points the build and the workers at a
# scratch copy of the repository, VERIF_OUT sends evidence, new replay files, logs and scratch files elsewhere, so that
# several modified copies can be examined at once without touching /repo or /verif's committed outputs.
OUT = os.environ.get("VERIF_OUT") or ROOT
ALT_REPO = os.environ.get("VERIF_REPO") if os.environ.get("VERIF_REPO") not in (None, "", "/repo") else None
PY = os.environ.get("VERIF_PYTHON", "/venv/bin/python")
WHEELS = "/opt/veriftools/wheels"


def log(msg):
    print(msg, flush=True)


def ensure_deps():
    missing = []
    for mod in ("hypothesis", "jsonschema"):
        try:
            importlib.import_module(mod)
        except Exception:
            missing.append(mod)
    if missing:
        subprocess.run([PY, "-m", "pip", "install", "-q", "--no-index", "--find-links", WHEELS] + missing,
                       stdout=subprocess.DEVNULL, stderr=subprocess.DEVNULL)
        importlib.invalidate_caches()


def worker_env():
    env = dict(os.environ)
    env["BIOSCRAPE_VERIF"] = "1"
    env["PYTHONHASHSEED"] = "0"
    env["PYTHONPATH"] = ROOT + (":" + ALT_REPO if ALT_REPO else "") + (":" + env["PYTHONPATH"] if env.get("PYTHONPATH") else "")
    env["OMP_NUM_THREADS"] = "1"
    env["OPENBLAS_NUM_THREADS"] = "1"
    env["MKL_NUM_THREADS"] = "1"
    env["MPLBACKEND"] = "Agg"
    return env


def _cpu_seconds(pid):
    """User + system CPU time of a process (all threads), in seconds."""
    with open(f"/proc/{pid}/stat") as f:
        fields = f.read().rsplit(")", 1)[1].split()
    return (int(fields[11]) + int(fields[12])) / os.sysconf("SC_CLK_TCK")


class Worker:
    def __init__(self, prop, job, tag, workdir, logdir):
        self.job = dict(job)
        self.tag = tag
        self.jobfile = os.path.join(workdir, f"{tag}.job.json")
        self.out = os.path.join(workdir, f"{tag}.out.json")
        self.journal = os.path.join(workdir, f"{tag}.journal.json")
        self.hashes = os.path.join(workdir, f"{tag}.hashes.npy")
        self.logfile = os.path.join(logdir, f"{prop}.{tag}.log")
        self.job.update(out=self.out, journal=self.journal, hashes_out=self.hashes, prop=prop)
        for p in (self.out, self.journal, self.hashes):
            if os.path.exists(p):
                os.remove(p)
        with open(self.jobfile, "w") as f:
            json.dump(self.job, f)
        self.lf = open(self.logfile, "w")
        # worker runs from a scratch cwd: code under test writes stray files (mcmc_results.csv, ...)
        self.proc = subprocess.Popen([PY, "-m", "vf.worker", self.jobfile], cwd=workdir, env=worker_env(),
                                     stdout=self.lf, stderr=subprocess.STDOUT, stdin=subprocess.DEVNULL)

    def wait(self, timeout=None, stall=None):
        """Wait for the worker.  `stall`: kill it when it has been busy with one and the same journalled case for
        that many seconds (code under test spinning inside C code cannot be interrupted from inside)."""
        t_end = None if timeout is None else time.time() + timeout
        rc = None
        seen_mtime, cpu_then = None, 0.0
        while True:
            try:
                rc = self.proc.wait(timeout=2.0)
                break
            except subprocess.TimeoutExpired:
                pass
            now = time.time()
            stalled = False
            if stall is not None:
                # measured in the worker's own CPU seconds: on a loaded machine a slow case is not a hang (ten times
                # the limit in wall-clock seconds is the backstop for a worker that sleeps for ever)
                try:
                    mtime = os.path.getmtime(self.journal)
                    cpu = _cpu_seconds(self.proc.pid)
                    if mtime != seen_mtime:
                        seen_mtime, cpu_then = mtime, cpu
                    stalled = (cpu - cpu_then) > stall or (now - mtime) > 10 * stall
                except OSError:
                    stalled = False
            if stalled or (t_end is not None and now > t_end):
                self.proc.kill()
                self.proc.wait()
                rc = "timeout"
                break
        self.lf.close()
        self.rc = rc
        self.result = None
        if os.path.exists(self.out):
            try:
                with open(self.out) as f:
                    self.result = json.load(f)
            except Exception:
                self.result = None
        return rc

    @property
    def died(self):
        """Killed by a signal / vanished without writing a result (as opposed to reporting an error)."""
        return self.result is None

    def last_case(self):
        try:
            with open(self.journal) as f:
                return json.load(f)
        except Exception:
            return None

    def death_name(self):
        if self.rc == "timeout":
            return "hang_timeout"
        if isinstance(self.rc, int) and self.rc < 0:
            try:
                return signal.Signals(-self.rc).name
            except Exception:
                return f"signal{-self.rc}"
        return f"exit{self.rc}"


STALL_S = {"quick": 180.0, "thorough": 600.0}


def replay_cases(prop, cases, tier, seed, workdir, logdir, tag="replay", timeout=1800):
    """Execute cases in crash-isolated workers.  Returns list of {'fails':[...]} (crash -> a crash fail)."""
    if not cases:
        return []
    w = Worker(prop, {"mode": "replay", "cases": cases, "tier": tier, "seed": seed}, tag, workdir, logdir)
    w.wait(timeout, stall=STALL_S.get(tier, 600.0))
    if not w.died:
        if not w.result.get("ok"):
            raise HarnessFailure(f"replay worker error:\n{w.result.get('error')}")
        return w.result["replays"]
    if len(cases) == 1:
        return [{"fails": [{"signature": f"crash|{w.death_name()}", "detail": {"log": w.logfile}}],
                 "nontrivial": False, "labels": [], "skip": None}]
    outs = []
    for i, c in enumerate(cases):
        outs.extend(replay_cases(prop, [c], tier, seed, workdir, logdir, tag=f"{tag}_{i}", timeout=timeout))
    return outs


class HarnessFailure(Exception):
    pass


def load_known(prop):
    path = os.path.join(ROOT, "known_findings.json")
    try:
        with open(path) as f:
            data = json.load(f)
    except FileNotFoundError:
        return []
    return [e for e in data.get("findings", []) if e.get("property") == prop]


def load_case_file(path):
    with open(path) as f:
        d = json.load(f)
    return d


def write_violation(prop, seed, v):
    d = os.path.join(OUT, "replays", prop)
    os.makedirs(d, exist_ok=True)
    h = hashlib.sha1(v["signature"].encode()).hexdigest()[:10]
    path = os.path.join(d, f"viol_{h}_seed{seed}.json")
    with open(path, "w") as f:
        json.dump({"property": prop, "signature": v["signature"], "sub_oracle": v.get("sub"), "seed": seed,
                   "case": v["case"], "detail": v.get("detail")}, f, indent=1, sort_keys=True)
    return os.path.relpath(path, ROOT) if OUT == ROOT else path


def validate_evidence(ev):
    try:
        import jsonschema
    except Exception:
        jsonschema = None
    schema_path = "/root/.vp/EVIDENCE.schema.json"
    local = os.path.join(ROOT, "vf", "EVIDENCE.schema.json")
    for p in (schema_path, local):
        if os.path.exists(p) and jsonschema is not None:
            with open(p) as f:
                schema = json.load(f)
            jsonschema.validate(ev, schema)
            return
    # minimal structural validation when jsonschema / the schema file is unavailable
    cov = ev["coverage"]
    assert isinstance(cov["evaluations"], int) and cov["evaluations"] >= 1
    assert isinstance(cov["distinct_nontrivial"], int) and cov["distinct_nontrivial"] >= 2
    assert isinstance(cov["rule"], str) and isinstance(cov["samples"], list) and cov["samples"]


def main(argv=None):
    ap = argparse.ArgumentParser()
    ap.add_argument("prop")
    ap.add_argument("--tier", default=os.environ.get("VERIF_TIER", "quick"), choices=["quick", "thorough"])
    ap.add_argument("--replay", default=None)
    ap.add_argument("--shards", type=int, default=None)
    ap.add_argument("--scale", type=float, default=float(os.environ.get("VERIF_SCALE", "1")))
    ap.add_argument("--no-build", action="store_true")
    args = ap.parse_args(argv)
    prop = args.prop.upper()
    seed = int(os.environ.get("VERIF_SEED", "1") or "1")
    t0 = time.time()
    os.chdir(ROOT)
    workdir = os.path.join(OUT, ".work", f"{prop}_{os.getpid()}")
    logdir = os.path.join(OUT, "evidence", "logs")
    os.makedirs(workdir, exist_ok=True)
    os.makedirs(logdir, exist_ok=True)
    try:
        rc = _main(prop, args, seed, t0, workdir, logdir)
    except HarnessFailure as e:
        log(f"HARNESS-ERROR property={prop}: {e}")
        rc = 2
    except Exception as e:  # noqa
        import traceback
        log(f"HARNESS-ERROR property={prop}: {''.join(traceback.format_exception(e))}")
        rc = 2
    finally:
        shutil.rmtree(workdir, ignore_errors=True)
    return rc


def _main(prop, args, seed, t0, workdir, logdir):
    ensure_deps()
    sys.path.insert(0, ROOT)
    from vf import build
    if not args.no_build:
        try:
            binfo = build.ensure_built()
        except build.BuildError as e:
            raise HarnessFailure(str(e))
    else:
        binfo = {"rebuilt": [], "wall_s": 0}
    from vf.props.meta import meta_for
    mod = meta_for(prop)
    tier = args.tier

    # ---- replay mode ---------------------------------------------------------------------------
    if args.replay:
        d = load_case_file(args.replay)
        case = d["case"] if "case" in d else d
        if isinstance(case, dict) and case.get("kind") == "_shard":
            w = Worker(prop, dict(case["job"], mode="search"), "replayshard", workdir, logdir)
            w.wait(3600)
            if w.died:
                log(f"replay: shard died again ({w.death_name()})")
                log(f"VIOLATION property={prop} replay={args.replay}")
                return 1
            viols = w.result.get("violations", []) if w.result.get("ok") else []
            if not w.result.get("ok"):
                raise HarnessFailure(w.result.get("error"))
            if viols:
                log(f"VIOLATION property={prop} replay={args.replay}")
                return 1
            log("replay: shard passes")
            return 0
        out = replay_cases(prop, [case], tier, seed, workdir, logdir)[0]
        for f in out["fails"]:
            log(f"replay: FAIL signature={f['signature']} detail={json.dumps(f['detail'])[:1500]}")
        if out["fails"]:
            log(f"VIOLATION property={prop} replay={args.replay}")
            return 1
        log("replay: case passes")
        return 0

    # ---- known findings and regression replays ---------------------------------------------------
    violations = []          # [(signature, replay_path)]
    muted = []
    known_reported = []
    regress_n = 0
    for e in load_known(prop):
        path = os.path.join(ROOT, e["replay"])
        d = load_case_file(path)
        out = replay_cases(prop, [d["case"]], tier, seed, workdir, logdir, tag="known")[0]
        sigs = [f["signature"] for f in out["fails"]]
        if e.get("status") == "known":
            if e["signature"] in sigs:
                log(f"KNOWN-FINDING: property={prop} {e['what']} [signature={e['signature']}]")
                muted.append(e["signature"])
                known_reported.append(e["signature"])
            for s in sigs:
                if s != e["signature"] and s not in [x.get("signature") for x in load_known(prop) if x.get("status") == "known"]:
                    violations.append((s, e["replay"]))
        elif os.environ.get("VERIF_NO_REGRESS") == "1":
            continue      # sensitivity experiments: does the generated search alone find a re-introduced defect?
        else:  # fixed: an ordinary regression case, suppresses nothing
            regress_n += 1
            for s in sigs:
                violations.append((s, e["replay"]))
    reg_files = sorted(glob.glob(os.path.join(ROOT, "replays", prop, "regress_*.json")))
    listed = {os.path.join(ROOT, e["replay"]) for e in load_known(prop)}
    reg_files = [p for p in reg_files if p not in listed]
    if os.environ.get("VERIF_NO_REGRESS") == "1":
        reg_files = []
    if reg_files:
        cases = [load_case_file(p)["case"] for p in reg_files]
        outs = replay_cases(prop, cases, tier, seed, workdir, logdir, tag="regress")
        regress_n += len(cases)
        for p, o in zip(reg_files, outs):
            for f in o["fails"]:
                if f["signature"] not in muted:
                    violations.append((f["signature"], os.path.relpath(p, ROOT)))

    # ---- sharded search --------------------------------------------------------------------------
    nshards = args.shards or mod.SHARDS.get(tier, 12)
    budget = mod.BUDGET.get(tier, 600) * max(1.0, args.scale)
    jobs = []
    for i in range(nshards):
        job = {"mode": "search", "tier": tier, "seed": seed, "shard": i, "nshards": nshards, "muted": muted,
               "budget_s": budget, "scale": args.scale,
               "flaky_is_violation": bool(getattr(mod, "FLAKY_IS_VIOLATION", False))}
        jobs.append(job)
    workers = [Worker(prop, j, f"shard{i}", workdir, logdir) for i, j in enumerate(jobs)]
    results = []
    for i, w in enumerate(workers):
        w.wait(budget * 5 + 300, stall=STALL_S.get(tier, 600.0))
        if w.died:
            res = handle_death(prop, w, jobs[i], tier, seed, workdir, logdir, violations)
            if res is not None:
                results.append(res)
            continue
        if not w.result.get("ok"):
            raise HarnessFailure(f"shard {i} error (log {w.logfile}):\n{w.result.get('error')}")
        w.result["_hashes"] = w.hashes
        results.append(w.result)

    # ---- merge -----------------------------------------------------------------------------------
    import numpy as np
    evaluations = sum(r["evaluations"] for r in results)
    hs = [np.load(r["_hashes"]) for r in results if r.get("_hashes") and os.path.exists(r["_hashes"])]
    distinct = int(len(np.unique(np.concatenate(hs)))) if hs else 0
    labels, excluded, skipped, subs = {}, {}, {}, {}
    samples = []
    for r in results:
        for k, v in r["labels"].items():
            labels[k] = labels.get(k, 0) + v
        for k, v in r["excluded"].items():
            excluded[k] = excluded.get(k, 0) + v
        for k, v in r["skipped"].items():
            skipped[k] = skipped.get(k, 0) + v
        for k, v in r["sub_counts"].items():
            subs[k] = subs.get(k, 0) + v
        samples.extend(r["samples"][:2])
    seen_sigs = {s for s, _ in violations}
    for r in results:
        for v in r["violations"]:
            if v["signature"] in seen_sigs:
                continue
            seen_sigs.add(v["signature"])
            violations.append((v["signature"], write_violation(prop, seed, v)))
    # de-duplicate by signature
    uniq = {}
    for s, p in violations:
        uniq.setdefault(s, p)
    if UNATTRIBUTED and not uniq:
        raise HarnessFailure("; ".join(UNATTRIBUTED))
    for msg in UNATTRIBUTED:
        log(f"[{prop}] note: {msg}")
    wall = round(time.time() - t0, 2)
    ev = {
        "property_id": prop, "tier": tier, "seed": seed, "level": "exploration",
        "coverage": {
            "evaluations": int(evaluations), "distinct_nontrivial": distinct, "rule": mod.RULE,
            "samples": samples[:8], "labels": dict(sorted(labels.items())), "sub_oracle_evaluations": subs,
            "excluded_by_signature": excluded, "skipped": skipped,
            "budget_hit_shards": sum(1 for r in results if r.get("budget_hit")),
            "shards": nshards, "regression_replays": regress_n, "known_findings_reported": known_reported,
            "source_fingerprint": build.source_fingerprint(), "rebuilt": binfo["rebuilt"],
            "exhaustive": bool(getattr(mod, "EXHAUSTIVE", False)),
            "notes": sorted({n for r in results for n in r.get("notes", [])})[:20],
        },
        "assumptions": list(mod.ASSUMPTIONS), "wall_s": wall, "violations": len(uniq),
    }
    if getattr(mod, "EXHAUSTIVE_NOTE", None):
        ev["coverage"]["exhaustive_note"] = mod.EXHAUSTIVE_NOTE
    try:
        validate_evidence(ev)
    except Exception as e:
        if not uniq:
            raise HarnessFailure(f"evidence does not validate: {e}")
    os.makedirs(os.path.join(OUT, "evidence"), exist_ok=True)
    with open(os.path.join(OUT, "evidence", f"{prop}.json"), "w") as f:
        json.dump(ev, f, indent=1, sort_keys=True)
    log(f"[{prop}] tier={tier} seed={seed} evaluations={evaluations} distinct_nontrivial={distinct} "
        f"excluded={sum(excluded.values())} violations={len(uniq)} wall={wall}s")
    for s, p in uniq.items():
        log(f"  root cause: {s}")
        log(f"VIOLATION property={prop} replay={p}")
    return 1 if uniq else 0


UNATTRIBUTED = []


def handle_death(prop, w, job, tier, seed, workdir, logdir, violations):
    """A worker vanished.  Attribute the death to a case if it reproduces, else to the shard, else harness error."""
    name = w.death_name()
    case = w.last_case()
    if case is not None:
        for attempt in range(3):
            out = replay_cases(prop, [case], tier, seed, workdir, logdir, tag=f"{w.tag}_crash{attempt}",
                               timeout=300)[0]
            crash = [f for f in out["fails"] if f["signature"].startswith("crash|")]
            if crash:
                v = {"signature": crash[0]["signature"], "case": case, "sub": "crash",
                     "detail": {"first_death": name, "log": w.logfile}}
                violations.append((v["signature"], write_violation(prop, seed, v)))
                return None
    w2 = Worker(prop, job, w.tag + "_rerun", workdir, logdir)
    w2.wait(job["budget_s"] * 5 + 300, stall=STALL_S.get(tier, 600.0))
    if w2.died:
        v = {"signature": f"crash|shard|{w2.death_name()}", "case": {"kind": "_shard", "job": job}, "sub": "crash",
             "detail": {"first_death": name, "log": w2.logfile}}
        violations.append((v["signature"], write_violation(prop, seed, v)))
        return None
    # An unreproducible death cannot be attributed to the property.  It does not invalidate what the other shards
    # found: the caller reports their violations and turns this into a harness error only if there are none.
    UNATTRIBUTED.append(f"worker {w.tag} died ({name}) but neither the last case nor the shard reproduces it "
                        f"(log {w.logfile})")
    if w2.result and w2.result.get("ok"):
        w2.result["_hashes"] = w2.hashes
        return w2.result
    return None


if __name__ == "__main__":
    sys.exit(main())
