"""JSON-able model specs <-> bioscrape objects.

spec = {"species": [names in declaration order], "x0": {name: value}, "params": {name: value},
        "reactions": [{"r": [...], "p": [...], "type": str, "pd": {...}, ["tree": expr tree for general rates],
                       "delay": None | {"type": "fixed|gaussian|gamma", "r": [...], "p": [...], "pd": {...}}}],
        "rules": [{"type": "assignment|additive|ode", "eq": str, ["target": str], "freq": "repeated|start|dt|<time>",
                   ["tree": expr tree of the right-hand side], ["dest": str]}]}
"""
import contextlib
import os
import sys

from vf import ref


def reaction_tuple(rx, shared=None):
    """shared: a dict used as a cache - reactions whose propensity dictionaries have equal content are then given the
    very same dict *object* (as in user code that re-uses one dictionary for several reactions)."""
    pd = dict(rx["pd"])
    if rx["type"] == "general":
        pd = {"rate": rx["pd"]["rate"]}
    if shared is not None:
        key = (rx["type"], tuple(sorted((k, repr(v)) for k, v in pd.items())))
        pd = shared.setdefault(key, pd)
    d = rx.get("delay")
    if d:
        return (list(rx["r"]), list(rx["p"]), rx["type"], pd, d["type"], list(d.get("r", [])), list(d.get("p", [])),
                dict(d.get("pd", {})))
    return (list(rx["r"]), list(rx["p"]), rx["type"], pd)


def rule_tuple(rl):
    if rl["type"] == "ode":
        return ("ode", {"equation": rl["eq"], "target": rl["target"]})
    if rl.get("freq", "repeated") == "repeated":
        return (rl["type"], {"equation": rl["eq"]})          # the documented short form: frequency defaults to "repeated"
    return (rl["type"], {"equation": rl["eq"]}, rl["freq"])


def to_model(spec, initialize=True, lineage=False, share_dicts=False, **extra):
    if lineage:
        from bioscrape.lineage import LineageModel as Cls
    else:
        from bioscrape.types import Model as Cls
    kwargs = dict(species=list(spec["species"]),
                  reactions=(lambda cache: [reaction_tuple(rx, cache) for rx in spec["reactions"]])({} if share_dicts else None),
                  parameters=[(k, v) for k, v in spec["params"].items()],
                  rules=[rule_tuple(r) for r in spec.get("rules", [])],
                  initial_condition_dict=dict(spec["x0"]))
    if not lineage:
        kwargs["initialize_model"] = initialize
    kwargs.update(extra)
    return Cls(**kwargs)


def state_vector(model, state):
    import numpy as np
    s2i = model.get_species2index()
    x = np.zeros(len(s2i))
    for s, i in s2i.items():
        x[i] = state[s]
    return x


def named(model, vec):
    s2i = model.get_species2index()
    return {s: float(vec[i]) for s, i in s2i.items()}


@contextlib.contextmanager
def quiet():
    """bioscrape / libsbml print to the C-level stdout; silence both levels."""
    sys.stdout.flush()
    sys.stderr.flush()
    devnull = os.open(os.devnull, os.O_WRONLY)
    saved = (os.dup(1), os.dup(2))
    try:
        os.dup2(devnull, 1)
        os.dup2(devnull, 2)
        yield
    finally:
        sys.stdout.flush()
        sys.stderr.flush()
        os.dup2(saved[0], 1)
        os.dup2(saved[1], 2)
        os.close(saved[0])
        os.close(saved[1])
        os.close(devnull)


def build_with_refusals(sp, refusals, res):
    """The reaction list is built call by call, and some calls in between are refused (they name a species that does not
    exist): a refused reaction is not part of the model, the accepted ones are - in their order.  refusals: [(position,
    kind)].  Returns the uninitialised model, or None (res.skip set) if an invalid reaction was not refused."""
    M = to_model(dict(sp, reactions=[]), initialize=False)
    some = sp["species"][0]
    for j in range(len(sp["reactions"]) + 1):
        for kind in [k for pos, k in refusals if pos == j]:
            bad = {"hill_unknown_species": ([some], [some, some], "hillpositive",
                                            {"k": 1.0, "K": 5.0, "n": 2.0, "s1": "X_undeclared"}),
                   "massaction_unknown_species": ([some], [], "massaction", {"k": 1.0, "species": some + "*Y_undeclared"}),
                   "delayed_hill_unknown_species": ([], [some], "hillnegative",
                                                    {"k": 1.0, "K": 2.0, "n": 1.0, "s1": "X_undeclared"}, "fixed",
                                                    [some], [some, some], {"delay": 1.0})}[kind]
            try:
                M.create_reaction(*bad)
            except (KeyError, ValueError):
                res.label("refused_call_between_reactions:" + kind)
            else:
                res.skip = "the invalid reaction was not refused"
                return None
        if j < len(sp["reactions"]):
            M.create_reaction(*reaction_tuple(sp["reactions"][j]))
    return M


REFUSAL_KINDS = ["hill_unknown_species", "massaction_unknown_species", "delayed_hill_unknown_species"]
