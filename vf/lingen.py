"""Lineage model specs (JSON-able) <-> bioscrape.lineage.LineageModel, and their Hypothesis strategy (shared by
C17 and C19).

lspec = {"base": plain model spec (vf/spec.py),
         "growth":   [{"kind": "rule"|"event", "type": str, "params": {...}, ["prop": [ptype, pdict]]}],
         "division": [{"kind": "rule"|"event", "type": str, "params": {...}, ["prop": ...],
                       "splitter": {"options": {...}, "noise": float}}],
         "death":    [{"kind": "rule"|"event", "type": str, "params": {...}, ["prop": ...]}],
         "grid": [...]}

Generated models are built so that a lineage stays small (a handful of generations inside the horizon) - by
construction, not by filtering."""
import math

from hypothesis import strategies as st

from vf import gen, spec as specmod


def build_splitter(M, sp):
    from bioscrape.lineage import LineageVolumeSplitter
    return LineageVolumeSplitter(M, options=dict(sp["options"]), partition_noise=float(sp["noise"]))


def add_growth(M, g):
    if g["kind"] == "rule":
        M.create_volume_rule(g["type"], dict(g["params"]))
    else:
        M.create_volume_event(g["type"], dict(g["params"]), g["prop"][0], dict(g["prop"][1]))


def add_division(M, d):
    vs = build_splitter(M, d["splitter"])
    if d["kind"] == "rule":
        M.create_division_rule(d["type"], dict(d["params"]), vs)
    else:
        M.create_division_event(d["type"], dict(d["params"]), d["prop"][0], dict(d["prop"][1]), vs)


def add_death(M, d):
    from bioscrape.lineage import GeneralDeathRule
    if d["kind"] == "rule":
        if d["type"] == "general":
            # create_death_rule accepts the type name only through a concatenated-literal typo; the public
            # add_lineage_rule with the rule object is used instead
            M.add_lineage_rule(GeneralDeathRule(), dict(d["params"]), "death")
        else:
            M.create_death_rule(d["type"], dict(d["params"]))
    else:
        M.create_death_event(d["type"], dict(d["params"]), d["prop"][0], dict(d["prop"][1]))


def base_lineage_model(ls, reactions=True):
    from bioscrape.lineage import LineageModel
    base = ls["base"]
    return LineageModel(species=list(base["species"]),
                        reactions=[specmod.reaction_tuple(rx) for rx in base["reactions"]] if reactions else [],
                        parameters=[(k, v) for k, v in base["params"].items()],
                        rules=[specmod.rule_tuple(r) for r in base.get("rules", [])],
                        initial_condition_dict=dict(base["x0"]), initialize_model=False)


def to_lineage_model(ls, initialize=True):
    from bioscrape.lineage import LineageModel, GeneralDeathRule
    base = ls["base"]
    M = LineageModel(species=list(base["species"]),
                     reactions=[specmod.reaction_tuple(rx) for rx in base["reactions"]],
                     parameters=[(k, v) for k, v in base["params"].items()],
                     rules=[specmod.rule_tuple(r) for r in base.get("rules", [])],
                     initial_condition_dict=dict(base["x0"]), initialize_model=False)
    for g in ls["growth"]:
        add_growth(M, g)
    for d in ls["division"]:
        add_division(M, d)
    for d in ls["death"]:
        add_death(M, d)
    if initialize:
        M.py_initialize()
    return M


# ---------------------------------------------------------------------------------------------------
def _const_prop(rate):
    """Zero-order mass action: the event rate is k x volume."""
    return ["massaction", {"k": float(rate), "species": ""}]


def _flat_prop(rate):
    """A rate that does not scale with the volume (a volume event whose rate grows with the volume it multiplies
    blows up in finite time - an ill-posed model, not a valid input)."""
    return ["general", {"rate": repr(float(rate))}]


def _r(x, nd=4):
    return float(f"{x:.{nd}g}")


@st.composite
def lineage_specs(draw, allow_zero_propensity=True, max_pts=48, with_death=True, rich=True):
    """A lineage model: A <-> B (conserved per cell between divisions), optional G (inflow/decay, capped), growth,
    division with a LineageVolumeSplitter, optional death."""
    dt = draw(st.sampled_from([0.0625, 0.125, 0.25, 0.5, 0.1, 0.05, 0.3]))
    npts = draw(st.integers(10, max_pts))
    if draw(st.booleans()):
        grid = [i * dt for i in range(npts)]
    else:
        import numpy as _np
        grid = [float(x) for x in _np.linspace(0.0, dt * (npts - 1), npts)]      # the other common way to write the grid
    H = grid[-1]
    species = ["A", "B"]
    has_G = draw(st.booleans())
    if has_G:
        species.append("G")
    b = gen.Builder(draw, species, named_params=True)
    shape = draw(st.sampled_from(["ab", "ab", "ab_hill", "a_to_b_only", "none"] if allow_zero_propensity
                                 else ["ab", "ab", "ab_hill"]))
    kscale = 1.0 / dt
    if shape in ("ab", "ab_hill", "a_to_b_only"):
        b.reactions.append(gen.massaction(b, ["A"], ["B"], k=b.value_entry(st.sampled_from([0.05, 0.2, 0.5]).map(lambda x: _r(x * kscale)))))
    if shape == "ab":
        b.reactions.append(gen.massaction(b, ["B"], ["A"], k=b.value_entry(st.sampled_from([0.05, 0.2, 0.5]).map(lambda x: _r(x * kscale)))))
    if shape == "ab_hill":
        rx = gen.hill(b, "proportionalhillpositive", ["B"], ["A"], "B", "B")
        b.reactions.append(rx)
    if has_G and shape != "none":
        b.reactions.append(gen.massaction(b, [], ["G"], k=_r(draw(st.sampled_from([0.2, 1.0, 3.0])) / max(H, dt))))
        if draw(st.booleans()):
            b.reactions.append(gen.massaction(b, ["G"], [], k=b.value_entry(st.sampled_from([0.1, 0.5]).map(lambda x: _r(x * kscale / 4)))))
    x0 = {"A": float(draw(st.integers(0, 40))), "B": float(draw(st.integers(0, 40)))}
    if has_G:
        x0["G"] = float(draw(st.integers(0, 12)))
    # ---- division timing target: 1.2 .. 3.2 generations inside the horizon -------------------------------
    gens = draw(st.sampled_from([0.6, 1.3, 2.2, 3.2]))
    Td = max(H / gens, 3 * dt)
    growth, division, death = [], [], []
    gkind = draw(st.sampled_from(["linear", "linear_noise", "multiplicative", "multiplicative_noise", "ode", "ode_lin",
                                  "assignment", "lin_event", "mult_event", "gen_event", "none"]))
    g_exp = _r(math.log(2) / Td)            # doubling time Td
    g_lin = _r(1.0 / Td)                    # +1 volume per Td
    if gkind == "linear":
        growth.append({"kind": "rule", "type": "linear", "params": {"growth_rate": b.value_entry(st.just(g_lin))}})
    elif gkind == "linear_noise":
        growth.append({"kind": "rule", "type": "linear", "params": {"growth_rate": g_lin, "noise": _r(g_lin / 10)}})
    elif gkind == "multiplicative":
        growth.append({"kind": "rule", "type": "multiplicative", "params": {"growth_rate": b.value_entry(st.just(g_exp))}})
    elif gkind == "multiplicative_noise":
        growth.append({"kind": "rule", "type": "multiplicative", "params": {"growth_rate": g_exp, "noise": _r(g_exp / 10)}})
    elif gkind == "ode":
        if draw(st.booleans()):
            growth.append({"kind": "rule", "type": "ode", "params": {"equation": f"{g_exp}*volume"}})   # no parameter at all
        else:
            p = b.new_param(g_exp)
            growth.append({"kind": "rule", "type": "ode", "params": {"equation": f"{p}*volume"}})
    elif gkind == "ode_lin":
        p = b.new_param(g_lin)
        growth.append({"kind": "rule", "type": "ode", "params": {"equation": f"{p} + 0*A"}})
    elif gkind == "assignment":
        p = b.new_param(g_lin)
        growth.append({"kind": "rule", "type": "assignment", "params": {"equation": f"1 + {p}*t"}})
    elif gkind == "lin_event":
        n_ev = 8.0
        growth.append({"kind": "event", "type": "linear volume", "params": {"growth_rate": _r(1.0 / n_ev)},
                       "prop": draw(st.sampled_from([_const_prop(_r(n_ev / Td / 2)), _flat_prop(_r(n_ev / Td))]))})
    elif gkind == "mult_event":
        n_ev = 8.0
        growth.append({"kind": "event", "type": "multiplicative volume", "params": {"growth_rate": _r(2 ** (1 / n_ev) - 1)},
                       "prop": _flat_prop(_r(n_ev / Td))})
    elif gkind == "gen_event":
        p = b.new_param(0.125)
        growth.append({"kind": "event", "type": "general volume", "params": {"equation": f"volume + {p}"},
                       "prop": ["hillpositive", {"k": _r(8.0 / Td), "s1": "A", "K": 5.0, "n": 2}]})
    grows = gkind != "none"
    resets = gkind != "assignment"        # an assignment volume law does not restart from the daughter's volume
    # ---- division ---------------------------------------------------------------------------------------
    dchoices = ["time", "time", "time_noise", "event"]
    if grows and resets:
        dchoices += ["volume", "volume", "deltav", "general", "volume_noise"]
    ndiv = draw(st.sampled_from([0, 1, 1, 1, 1, 2]))
    vol_dup = draw(st.integers(0, 5)) == 0       # one decision per model: a duplicated volume stays above any volume
    if vol_dup:                                  # threshold, so such models divide by time or by event only
        dchoices = ["time", "time", "time_noise", "event"]
    forced = []
    if ndiv == 2 and draw(st.booleans()):
        # a rule next to an event, each with its own splitter: which mechanism fired decides how the cell is split
        forced = [draw(st.sampled_from([c for c in dchoices if c not in ("event", "time_noise", "volume_noise")])), "event"]
    for k_div in range(ndiv):
        dk = forced[k_div] if forced else draw(st.sampled_from(dchoices))
        modes = {}
        for s in species:
            modes[s] = draw(st.sampled_from(["binomial", "binomial", "perfect", "duplicate"]))
        options = {"default": draw(st.sampled_from(["binomial", "perfect", "duplicate"])),
                   "volume": "duplicate" if vol_dup else draw(st.sampled_from(["binomial", "binomial", "perfect"]))}
        for s in species:
            if draw(st.integers(0, 3)) > 0:
                options[s] = modes[s]
        splitter = {"options": options, "noise": draw(st.sampled_from([0.0, 0.1, 0.3, 0.5]))}
        if dk == "time":
            d = {"kind": "rule", "type": "time", "params": {"threshold": b.value_entry(st.just(_r(Td)))}}
        elif dk == "time_noise":
            d = {"kind": "rule", "type": "time", "params": {"threshold": _r(Td), "noise": _r(Td / 20)}}
        elif dk == "volume":
            d = {"kind": "rule", "type": "volume", "params": {"threshold": b.value_entry(st.just(2.0))}}
        elif dk == "volume_noise":
            d = {"kind": "rule", "type": "volume", "params": {"threshold": 2.0, "noise": 0.02}}
        elif dk == "deltav":
            d = {"kind": "rule", "type": "deltaV", "params": {"threshold": b.value_entry(st.just(1.0))}}
        elif dk == "general":
            if draw(st.booleans()):
                d = {"kind": "rule", "type": "general", "params": {"equation": "volume - 2.0"}}          # no parameter at all
            else:
                p = b.new_param(2.0)
                d = {"kind": "rule", "type": "general", "params": {"equation": f"volume - {p}"}}
        else:
            prop = draw(st.sampled_from(["const", "hill"]))
            if prop == "const":
                pr = _const_prop(_r(1.0 / Td))
            else:
                pr = ["hillnegative", {"k": _r(1.5 / Td), "s1": "A", "K": 30.0, "n": 2}]
            d = {"kind": "event", "type": "division", "params": {}, "prop": pr}
        d["splitter"] = splitter
        division.append(d)
    # ---- death --------------------------------------------------------------------------------------------
    if with_death and draw(st.integers(0, 2)) == 0:
        k = draw(st.sampled_from(["species", "species_lt", "param", "general", "event"]))
        tgt = "G" if has_G else "A"
        if k == "species":
            death.append({"kind": "rule", "type": "species",
                          "params": {"specie": tgt, "threshold": float(draw(st.integers(8, 60))), "comp": ">"}})
        elif k == "species_lt":
            death.append({"kind": "rule", "type": "species",
                          "params": {"specie": tgt, "threshold": float(draw(st.integers(0, 3))), "comp": "<",
                                     "noise": 0.01}})
        elif k == "param":
            p = b.new_param(draw(st.sampled_from([0.1, 5.0])))
            death.append({"kind": "rule", "type": "param", "params": {"param": p, "threshold": 1.0,
                                                                      "comp": draw(st.sampled_from([">", "<"]))}})
        elif k == "general":
            death.append({"kind": "rule", "type": "general", "params": {"equation": f"{tgt} - {draw(st.integers(10, 60))}"}})
        else:
            death.append({"kind": "event", "type": "death", "params": {}, "prop": _const_prop(_r(0.3 / max(H, dt)))})
    # ---- plain rules on an extra species -------------------------------------------------------------------
    if rich and draw(st.integers(0, 3)) == 0:
        b.species.append("W")
        x0["W"] = float(draw(st.integers(0, 5)))
        kind = draw(st.sampled_from(["assign", "counter"]))
        if kind == "assign":
            tree = ["add", gen.sym("A"), gen.sym("B")]
            b.rules.append({"type": "additive", "eq": "W = A + B", "freq": "repeated", "tree": tree, "dest": "W"})
        else:
            tree = ["add", gen.sym("W"), gen.num(1.0)]
            b.rules.append({"type": "assignment", "eq": "W = W + 1", "freq": "dt", "tree": tree, "dest": "W"})
    ncells = draw(st.sampled_from([1, 1, 1, 2, 3]))
    return {"base": b.spec(x0), "growth": growth, "division": division, "death": death, "grid": grid,
            "cells": ncells, "shape": shape, "growth_kind": gkind}


def species_modes(ls, division_index):
    """Partition mode of every species (and of the volume) under division mechanism `division_index`."""
    opt = ls["division"][division_index]["splitter"]["options"]
    default = opt.get("default", "binomial")
    modes = {s: opt.get(s, default) for s in ls["base"]["species"]}
    return modes, opt.get("volume", default)


def simulate_lineage(M, grid, seed, cells=1, simulator=None):
    """Seeded lineage simulation: list of dicts (time, data, volume, parent index, daughter indices).
    simulator: a LineageSSASimulator object to run on (what the module-level helper does with a new object every time)."""
    import numpy as np
    from bioscrape.lineage import py_SimulateCellLineage
    from bioscrape.random import py_seed_random
    py_seed_random(int(seed))
    tp = np.array(grid, dtype=float)
    with specmod.quiet():
        if simulator is None:
            L = py_SimulateCellLineage(tp, Model=M, initial_cell_states=int(cells))
        else:
            from bioscrape.lineage import LineageCSimInterface, LineageVolumeCellState
            itf = LineageCSimInterface(M)
            itf.py_set_initial_time(tp[0])
            cellstates = [LineageVolumeCellState(v0=1, t0=0, state=itf.py_get_initial_state())] * int(cells)
            L = simulator.py_SimulateCellLineage(tp, interface=itf, initial_cell_states=cellstates)
    return lineage_records(L), L


def lineage_records(L):
    import numpy as np
    n = L.py_size()
    sch = [L.py_get_schnitz(i) for i in range(n)]
    index = {id(s): i for i, s in enumerate(sch)}
    out = []
    for s in sch:
        p = s.py_get_parent()
        d1, d2 = s.py_get_daughters()
        out.append({"time": np.array(s.py_get_time(), dtype=float), "data": np.array(s.py_get_data(), dtype=float),
                    "volume": np.array(s.py_get_volume(), dtype=float),
                    "parent": None if p is None else index.get(id(p), -2),
                    "daughters": [None if d is None else index.get(id(d), -2) for d in (d1, d2)]})
    return out
