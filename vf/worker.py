"""Worker process: executes one shard of a search, or replays given cases.  Talks to the parent only
through the result file; its stdout/stderr are redirected to a log file by the parent."""
import importlib
import json
import os
import sys
import traceback
import warnings


def main():
    job_path = sys.argv[1]
    with open(job_path) as f:
        job = json.load(f)
    out_path = job["out"]
    result = {"ok": False}
    try:
        warnings.filterwarnings("ignore")
        import logging
        logging.disable(logging.CRITICAL)
        from vf.core import Ctx, HarnessError, canon
        import numpy as np
        mod = importlib.import_module("vf.props." + job["prop"].lower())
        ctx = Ctx(job)
        if job["mode"] == "search":
            mod.search(ctx)
            result = ctx.result()
            result["ok"] = True
            hp = job.get("hashes_out")
            if hp:
                np.save(hp, np.array(sorted(ctx.hashes), dtype=np.uint64))
            result["n_hashes"] = len(ctx.hashes)
        elif job["mode"] == "replay":
            outs = []
            for case in job["cases"]:
                res = ctx.execute(mod.check, case)
                outs.append({"fails": [f.to_json() for f in res.fails], "nontrivial": bool(res.nontrivial),
                             "labels": res.labels, "skip": res.skip})
            result = {"ok": True, "replays": outs}
        else:
            raise HarnessError("unknown mode")
    except BaseException as exc:  # reported to the parent as a harness error (exit 2), never as a pass
        result = {"ok": False, "error": "".join(traceback.format_exception(exc))[-6000:]}
    tmp = out_path + ".tmp"
    with open(tmp, "w") as f:
        json.dump(result, f)
    os.replace(tmp, out_path)


if __name__ == "__main__":
    main()
