"""Compare the distribution of simulated paths with the chemical master equation (marginals at every time point and
joints of consecutive time points), with the two-stage protocol of vf/stats.py."""
import numpy as np

from vf import cme as cmemod, ref, stats


def net_need(rx, s):
    """Copies of species s that one firing of rx consumes net (immediately and after the delay): the amount the
    safe interface requires before it lets the reaction fire."""
    d = rx.get("delay") or {}
    imm = rx["r"].count(s) - rx["p"].count(s)
    dl = d.get("r", []).count(s) - d.get("p", []).count(s)
    if imm > 0 and dl > 0:
        return imm + dl
    return max(imm, dl, 0)


def safe_ratefn(mode, vol):
    """Reference propensity in safe mode: the closed form, but 0 unless every species the reaction consumes (net,
    immediately or after its delay) is present in that amount."""
    def fn(spec, rx, st):
        d = rx.get("delay") or {}
        for s in set(rx["r"]) | set(d.get("r", [])):
            if st[s] < net_need(rx, s):
                return 0.0
        return ref.rate(spec, rx, st, 0.0, mode, vol)
    return fn


def build_cme(spec, mode="stoch", vol=1.0, cap=400, safe=False):
    return cmemod.CME(spec, mode=mode, vol=vol, cap=cap, ratefn=safe_ratefn(mode, vol) if safe else None)


def tests_for(cme, grid, paths):
    """paths: (N, T, nspecies in spec order).  Returns list of (name, pvalue, info)."""
    N, T, _ = paths.shape
    margs, joints = cme.marginals_and_joints(grid)
    out = []
    codes = []
    for k in range(T):
        c = cme.encode_fast(paths[:, k, :])
        if c is None:
            out.append((f"integrality@{k}", 0.0, {"impossible": True, "note": "non-integer state reported"}))
            return out
        codes.append(c)
    for k in range(T):
        c = codes[k]
        if (c < 0).any():
            bad = paths[np.argmax(c < 0), k, :]
            out.append((f"marginal@{k}", 0.0, {"impossible": True, "state": [float(v) for v in bad],
                                                "note": "state outside the reachable set of the reference network"}))
            continue
        obs = np.bincount(c, minlength=cme.n)
        p, info = stats.chi2_pooled(obs, margs[k], N)
        out.append((f"marginal@{k}", p, info))
    for k in range(T - 1):
        a, b = codes[k], codes[k + 1]
        if (a < 0).any() or (b < 0).any():
            continue
        obs = np.bincount(a * cme.n + b, minlength=cme.n * cme.n)
        p, info = stats.chi2_pooled(obs, joints[k].ravel(), N)
        out.append((f"joint@{k},{k + 1}", p, info))
    return out


def compare(cme, grid, simulate_paths, n1, seed1, seed2):
    """simulate_paths(n, seed) -> (n, T, nspecies).  Returns (rejections, report)."""
    def run(n, seed):
        return tests_for(cme, grid, simulate_paths(n, seed))
    return stats.two_stage(run, n1, seed1, seed2)


def spread(cme, grid):
    """Non-triviality measure: number of states with probability > 5% at some reported time."""
    margs, _ = cme.marginals_and_joints(grid)
    return int(max((m > 0.05).sum() for m in margs))
