"""Statistical decisions that do not flake: pooled chi-square / KS with a two-stage confirmation protocol.

stage 1: N1 samples, reject at p < 1e-4 / #tests
stage 2 (only after a stage-1 rejection, fresh seeds, N2 = 10 N1): reject at p < 1e-9 / #tests -> violation
Under the null the false-alarm probability per case is < 1e-4 * 1e-9.
"""
import numpy as np
import scipy.stats as st_

P1 = 1e-4
P2 = 1e-9


def chi2_pooled(observed, expected_prob, n, min_expected=5.0):
    """observed: counts per cell; expected_prob: probabilities per cell (sum ~ 1).  Returns (pvalue, info).
    Cells with expected count < min_expected are pooled.  An observation in a cell of probability 0 is an exact
    contradiction (pvalue 0, info['impossible'] = True)."""
    obs = np.asarray(observed, dtype=float).ravel()
    ep = np.asarray(expected_prob, dtype=float).ravel()
    impossible = (ep <= 1e-14) & (obs > 0)
    if impossible.any():
        k = int(np.argmax(impossible))
        return 0.0, {"impossible": True, "cell": k, "count": float(obs[k])}
    e = ep * n
    big = e >= min_expected
    o_b, e_b = obs[big], e[big]
    o_s, e_s = obs[~big].sum(), e[~big].sum()
    if e_s > 0 or o_s > 0:
        if e_s >= min_expected or len(o_b) == 0:
            o_b = np.append(o_b, o_s)
            e_b = np.append(e_b, e_s)
        else:
            # pooled remainder still small: merge into the smallest big cell
            k = int(np.argmin(e_b))
            o_b[k] += o_s
            e_b[k] += e_s
    if len(o_b) < 2:
        return 1.0, {"cells": int(len(o_b))}
    e_b = e_b * (o_b.sum() / e_b.sum())
    stat = float(((o_b - e_b) ** 2 / e_b).sum())
    df = len(o_b) - 1
    return float(st_.chi2.sf(stat, df)), {"cells": int(len(o_b)), "stat": stat, "df": df}


def ks_uniform(u):
    u = np.asarray(u, dtype=float)
    return float(st_.kstest(u, "uniform").pvalue)


def ks_against(samples, cdf):
    return float(st_.kstest(np.asarray(samples, dtype=float), cdf).pvalue)


def two_stage(run_tests, n1, seed1, seed2, factor=10):
    """run_tests(n, seed) -> list of (name, pvalue, info).  Returns (violations, report).
    A violation is a test rejected in both stages (stage-2 thresholds)."""
    t1 = run_tests(n1, seed1)
    m = max(len(t1), 1)
    rej1 = [(name, p, info) for name, p, info in t1 if p < P1 / m]
    report = {"n1": n1, "tests": len(t1), "min_p_stage1": min([p for _, p, _ in t1], default=1.0)}
    if not rej1:
        return [], report
    t2 = run_tests(n1 * factor, seed2)
    names1 = {name for name, _, _ in rej1}
    rej2 = [(name, p, info) for name, p, info in t2 if p < P2 / m and name in names1]
    report.update({"stage2": True, "n2": n1 * factor, "min_p_stage2": min([p for _, p, _ in t2], default=1.0),
                   "stage1_rejections": [n for n, _, _ in rej1][:10]})
    return rej2, report
