"""Chemical master equation on an enumerated state space: reference distribution for the stochastic simulators."""
import numpy as np
import scipy.linalg

from vf import ref


class TooLarge(Exception):
    pass


class CME:
    def __init__(self, spec, mode="stoch", vol=1.0, cap=400, overflow_ok=False, species_caps=None, ratefn=None):
        """Enumerate the states reachable from spec['x0'] under the net stoichiometry (immediate + delayed) with
        positive reference propensity.  With overflow_ok, states whose species exceed species_caps go to an absorbing
        overflow state (finite-state projection)."""
        self.spec = spec
        self.species = list(spec["species"])
        S, Sd = ref.stoich(spec)
        nr = len(spec["reactions"])
        self.net = [tuple(S[s][j] + Sd[s][j] for s in self.species) for j in range(nr)]
        x0 = tuple(int(round(spec["x0"][s])) for s in self.species)
        self.states = [x0]
        self.index = {x0: 0}
        trans = []       # (i, j, rate)
        self.overflow = None
        frontier = [x0]
        while frontier:
            nxt = []
            for x in frontier:
                i = self.index[x]
                st = {s: float(v) for s, v in zip(self.species, x)}
                for j, rx in enumerate(spec["reactions"]):
                    a = ratefn(spec, rx, st) if ratefn is not None else ref.rate(spec, rx, st, 0.0, mode, vol)
                    if a < 0:
                        raise ValueError("negative reference propensity")
                    if a == 0:
                        continue
                    y = tuple(xi + d for xi, d in zip(x, self.net[j]))
                    if any(v < 0 for v in y):
                        raise ValueError(f"reference network leaves the non-negative orthant: {x} -> {y}")
                    if species_caps is not None and any(v > species_caps[s] for v, s in zip(y, self.species)):
                        if not overflow_ok:
                            raise TooLarge()
                        if self.overflow is None:
                            self.overflow = -1
                        trans.append((i, -1, a))
                        continue
                    if y not in self.index:
                        if len(self.states) >= cap:
                            raise TooLarge()
                        self.index[y] = len(self.states)
                        self.states.append(y)
                        nxt.append(y)
                    trans.append((i, self.index[y], a))
            frontier = nxt
        n = len(self.states) + (1 if self.overflow is not None else 0)
        self.n = n
        Q = np.zeros((n, n))
        for i, j, a in trans:
            jj = j if j >= 0 else n - 1
            Q[i, jj] += a
            Q[i, i] -= a
        self.Q = Q
        self._expm = {}

    def P(self, dt):
        key = round(float(dt), 12)
        if key not in self._expm:
            self._expm[key] = transition_matrix(self.Q, dt)
        return self._expm[key]

    def marginals_and_joints(self, grid, t0=0.0):
        """marginals[k] = distribution at grid[k]; joints[k] = joint of (grid[k], grid[k+1])."""
        p = np.zeros(self.n)
        p[0] = 1.0
        margs, joints = [], []
        prev_t = t0
        for k, t in enumerate(grid):
            dt = t - prev_t
            Pm = self.P(dt) if dt > 0 else np.eye(self.n)
            if k > 0:
                joints.append(p[:, None] * Pm)
            p = p @ Pm
            p = p / p.sum()
            margs.append(p.copy())
            prev_t = t
        return margs, joints

    def encode(self, arr):
        """Map an (N, nspecies) array of integer states to state indices (-1 for states outside the enumeration)."""
        arr = np.asarray(arr)
        out = np.empty(arr.shape[0], dtype=np.int64)
        idx = self.index
        for r in range(arr.shape[0]):
            out[r] = idx.get(tuple(int(v) for v in arr[r]), -1)
        return out

    def encode_fast(self, arr):
        arr = np.asarray(arr)
        if arr.size == 0:
            return np.zeros(0, dtype=np.int64)
        if np.any(arr != np.round(arr)):
            return None
        ai = arr.astype(np.int64)
        lo = min(int(ai.min()), 0)
        st = np.array(self.states, dtype=np.int64)
        hi = max(int(ai.max()), int(st.max())) + 1
        base = hi - lo + 1
        w = base ** np.arange(ai.shape[1], dtype=np.int64)
        codes = ((ai - lo) * w).sum(axis=1)
        scodes = ((st - lo) * w).sum(axis=1)
        order = np.argsort(scodes)
        pos = np.searchsorted(scodes[order], codes)
        pos = np.clip(pos, 0, len(order) - 1)
        found = scodes[order][pos] == codes
        out = np.where(found, order[pos], -1)
        return out


def transition_matrix(Q, dt):
    """exp(Q dt) of a generator matrix by uniformisation on a short step followed by repeated squaring.

    Every term of the series and every product has non-negative entries, so nothing cancels and the result is a
    stochastic matrix to rounding.  (scipy.linalg.expm was used before; scipy 1.18 returns a matrix whose rows sum to
    0.987 for the 27-state, upper-triangular generator of  A -> Z -> 0  with equal rate constants - DESIGN section 12.)"""
    n = Q.shape[0]
    lam = float(np.max(-np.diag(Q)))
    if lam <= 0 or dt <= 0:
        return np.eye(n)
    s = max(0, int(np.ceil(np.log2(lam * dt / 0.25))))
    h = dt / (2 ** s)
    U = np.eye(n) + Q / lam                   # uniformised jump chain: non-negative, rows sum to 1
    a = lam * h                               # <= 0.25
    w = np.exp(-a)
    P = w * np.eye(n)
    term = np.eye(n)
    k = 0
    while True:
        k += 1
        term = term @ U
        w = w * a / k
        P = P + w * term
        if w < 1e-18 and k > a + 4:
            break
    for _ in range(s):
        P = P @ P
    rows = P.sum(axis=1)
    if not (np.all(P >= 0) and np.max(np.abs(rows - 1.0)) < 1e-9):
        raise ArithmeticError("transition matrix is not stochastic: row sums in [%r, %r]" % (rows.min(), rows.max()))
    return P / rows[:, None]

