"""Evaluator for libsbml ASTNode trees: plain SBML mathematics over an environment of identifiers."""
import math

import libsbml


class UndefinedIdentifier(Exception):
    def __init__(self, name):
        super().__init__(name)
        self.name = name


class Unsupported(Exception):
    pass


class MathUndefined(Exception):
    pass


def evaluate(node, env, time=0.0):
    t = node.getType()
    n = node.getNumChildren()

    def ch(i):
        return evaluate(node.getChild(i), env, time)

    try:
        if t == libsbml.AST_INTEGER:
            return float(node.getInteger())
        if t in (libsbml.AST_REAL, libsbml.AST_REAL_E, libsbml.AST_RATIONAL):
            return float(node.getReal())
        if t == libsbml.AST_NAME:
            name = node.getName()
            if name not in env:
                raise UndefinedIdentifier(name)
            return float(env[name])
        if t == libsbml.AST_NAME_TIME:
            return float(time)
        if t == libsbml.AST_CONSTANT_E:
            return math.e
        if t == libsbml.AST_CONSTANT_PI:
            return math.pi
        if t == libsbml.AST_PLUS:
            return sum(ch(i) for i in range(n))
        if t == libsbml.AST_TIMES:
            v = 1.0
            for i in range(n):
                v *= ch(i)
            return v
        if t == libsbml.AST_MINUS:
            return -ch(0) if n == 1 else ch(0) - ch(1)
        if t == libsbml.AST_DIVIDE:
            return ch(0) / ch(1)
        if t in (libsbml.AST_POWER, libsbml.AST_FUNCTION_POWER):
            return math.pow(ch(0), ch(1))
        if t == libsbml.AST_FUNCTION_EXP:
            return math.exp(ch(0))
        if t == libsbml.AST_FUNCTION_LN:
            return math.log(ch(0))
        if t == libsbml.AST_FUNCTION_LOG:
            if n == 2:
                return math.log(ch(1)) / math.log(ch(0))
            return math.log10(ch(0))
        if t == libsbml.AST_FUNCTION_ABS:
            return abs(ch(0))
        if t == libsbml.AST_FUNCTION_MIN:
            return min(ch(i) for i in range(n))
        if t == libsbml.AST_FUNCTION_MAX:
            return max(ch(i) for i in range(n))
        if t == libsbml.AST_FUNCTION_ROOT:
            return math.pow(ch(1), 1.0 / ch(0)) if n == 2 else math.sqrt(ch(0))
        if t == libsbml.AST_FUNCTION:
            raise UndefinedIdentifier(node.getName() + "()")
    except (ZeroDivisionError, ValueError, OverflowError) as e:
        raise MathUndefined(str(e))
    raise Unsupported(f"AST node type {t} ({node.getName()})")


def identifiers(node, acc=None):
    acc = set() if acc is None else acc
    if node.getType() == libsbml.AST_NAME:
        acc.add(node.getName())
    if node.getType() == libsbml.AST_FUNCTION:
        acc.add(node.getName() + "()")
    for i in range(node.getNumChildren()):
        identifiers(node.getChild(i), acc)
    return acc
