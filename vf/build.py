"""Rebuild /repo's extension modules in place when (and only when) their sources changed.

The decision is made from content hashes (never mtimes), per extension module, so that
  * a fresh restore without a stamp rebuilds everything,
  * `git apply` / `git checkout -- .` of a patch rebuilds exactly the affected modules,
  * an unchanged tree costs < 1 s.
A compile error is a harness error (BuildError), never a violation.
"""
import fcntl
import glob
import hashlib
import json
import os
import subprocess
import sys
import time

REPO = os.environ.get("VERIF_REPO", "/repo")
PY = os.environ.get("VERIF_PYTHON", "/venv/bin/python")

# extension module -> (source, files whose change forces a rebuild of that module)
_PXD_ALL = ["bioscrape/random.pxd", "bioscrape/types.pxd", "bioscrape/simulator.pxd",
            "bioscrape/inference.pxd", "bioscrape/vector.pxd", "lineage/lineage.pxd"]
MODULES = {
    "random": ["bioscrape/random.pyx", "bioscrape/random.pxd"],
    "types": ["bioscrape/types.pyx", "bioscrape/types.pxd", "bioscrape/random.pxd", "bioscrape/vector.pxd"],
    "simulator": ["bioscrape/simulator.pyx", "bioscrape/simulator.pxd", "bioscrape/types.pxd",
                  "bioscrape/random.pxd", "bioscrape/vector.pxd"],
    "inference": ["bioscrape/inference.pyx", "bioscrape/inference.pxd", "bioscrape/simulator.pxd",
                  "bioscrape/types.pxd", "bioscrape/random.pxd", "bioscrape/vector.pxd"],
    "lineage": ["lineage/lineage.pyx"] + _PXD_ALL,
}
CPP = {"random": "bioscrape/random.cpp", "types": "bioscrape/types.cpp", "simulator": "bioscrape/simulator.cpp",
       "inference": "bioscrape/inference.cpp", "lineage": "lineage/lineage.cpp"}
COMMON = ["setup.py"]


class BuildError(Exception):
    pass


def _h(path):
    try:
        with open(os.path.join(REPO, path), "rb") as f:
            return hashlib.sha256(f.read()).hexdigest()
    except FileNotFoundError:
        return "missing"


def _so(mod):
    return glob.glob(os.path.join(REPO, "bioscrape", mod + ".cpython-*.so"))


def _module_hash(mod):
    h = hashlib.sha256()
    for p in MODULES[mod] + COMMON:
        h.update(p.encode())
        h.update(_h(p).encode())
    return h.hexdigest()


def source_fingerprint():
    """Hash of everything that determines the behaviour of the installed package (for evidence)."""
    h = hashlib.sha256()
    files = sorted(set(sum(MODULES.values(), [])) | set(COMMON)
                   | {os.path.relpath(p, REPO) for p in glob.glob(os.path.join(REPO, "bioscrape", "*.py"))})
    for p in files:
        h.update(p.encode())
        h.update(_h(p).encode())
    return h.hexdigest()[:16]


def ensure_built(verbose=True):
    os.makedirs(os.path.join(REPO, "build"), exist_ok=True)
    lock_path = os.path.join(REPO, "build", ".verif.lock")
    stamp_path = os.path.join(REPO, "build", ".verif_stamp.json")
    t0 = time.time()
    with open(lock_path, "w") as lock:
        fcntl.flock(lock, fcntl.LOCK_EX)
        try:
            with open(stamp_path) as f:
                stamp = json.load(f)
        except Exception:
            stamp = {}
        want = {m: _module_hash(m) for m in MODULES}
        stale = [m for m in MODULES if stamp.get(m) != want[m] or not _so(m)]
        if not stale:
            return {"rebuilt": [], "wall_s": round(time.time() - t0, 2)}
        if verbose:
            print(f"[build] rebuilding {stale} from {REPO} working tree", flush=True)
        # drop the stamp first: an interrupted build must not leave a stamp that claims freshness
        for m in stale:
            stamp.pop(m, None)
        with open(stamp_path, "w") as f:
            json.dump(stamp, f)
        for m in stale:
            for p in _so(m) + [os.path.join(REPO, CPP[m])]:
                try:
                    os.remove(p)
                except FileNotFoundError:
                    pass
        env = dict(os.environ)
        env.pop("BIOSCRAPE_VERIF", None)
        proc = subprocess.run([PY, "setup.py", "build_ext", "--inplace", "-j", "8"], cwd=REPO, env=env,
                              stdout=subprocess.PIPE, stderr=subprocess.STDOUT, text=True)
        missing = [m for m in MODULES if not _so(m)]
        if proc.returncode != 0 or missing:
            tail = "\n".join(proc.stdout.splitlines()[-60:])
            raise BuildError(f"build of {REPO} failed (rc={proc.returncode}, missing={missing}):\n{tail}")
        for m in stale:
            stamp[m] = want[m]
        with open(stamp_path, "w") as f:
            json.dump(stamp, f)
        return {"rebuilt": stale, "wall_s": round(time.time() - t0, 2)}


if __name__ == "__main__":
    try:
        print(json.dumps(ensure_built()))
    except BuildError as e:
        print(str(e), file=sys.stderr)
        sys.exit(2)
