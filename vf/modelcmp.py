"""Behavioural comparison of two bioscrape models, matched by name (indices may legitimately differ)."""
import math

import numpy as np


def _close(a, b, rel=1e-12):
    if math.isnan(a) and math.isnan(b):
        return True
    if not (math.isfinite(a) and math.isfinite(b)):
        return a == b
    return abs(a - b) <= rel * max(1.0, abs(a), abs(b))


def _close_rel(a, b, rel=1e-12):
    """Purely relative (stored values: a rate constant of 1e-14 must survive as well as one of order 1)."""
    if math.isnan(a) and math.isnan(b):
        return True
    if not (math.isfinite(a) and math.isfinite(b)):
        return a == b
    return abs(a - b) <= rel * max(abs(a), abs(b))


def _vec(model, state):
    s2i = model.get_species2index()
    x = np.zeros(len(s2i))
    for s, i in s2i.items():
        x[i] = state.get(s, 0.0)
    return x


def _freq_norm(f):
    if f in ("repeat", "repeated"):
        return "repeated"
    try:
        return float(f)
    except (TypeError, ValueError):
        return f


def compare(A, B, states, times=(0.0,), vols=(1.0, 2.5), check_rules=True, seed=12345, scheduled_times=()):
    """Returns a list of (signature tuple, detail dict); empty = behaviourally the same."""
    from bioscrape.simulator import ModelCSimInterface
    from bioscrape.random import py_seed_random
    out = []
    sa, sb = A.get_species_dictionary(), B.get_species_dictionary()
    if set(sa) != set(sb):
        return [(("species_set",), {"a": sorted(sa), "b": sorted(sb)})]
    for s in sa:
        if not _close_rel(float(sa[s]), float(sb[s])):
            out.append((("initial_value",), {"species": s, "a": float(sa[s]), "b": float(sb[s])}))
            return out
    pa, pb = A.get_parameter_dictionary(), B.get_parameter_dictionary()
    for p in pa:
        if p not in pb:
            out.append((("parameter_missing",), {"parameter": p}))
            return out
        if not _close_rel(float(pa[p]), float(pb[p])):
            out.append((("parameter_value",), {"parameter": p, "a": float(pa[p]), "b": float(pb[p])}))
            return out
    for p in pb:
        if p not in pa:
            out.append((("parameter_extra",), {"parameter": p}))
            return out
    Ua, Ub = A.py_get_update_array(), B.py_get_update_array()
    Da, Db = A.py_get_delay_update_array(), B.py_get_delay_update_array()
    if Ua is None or Ub is None:
        if (Ua is None) != (Ub is None):
            out.append((("initialised_state",), {}))
        return out
    if Ua.shape[1] != Ub.shape[1]:
        return [(("reaction_count",), {"a": int(Ua.shape[1]), "b": int(Ub.shape[1])})]
    ia, ib = A.get_species2index(), B.get_species2index()
    for s in ia:
        for j in range(Ua.shape[1]):
            if Ua[ia[s], j] != Ub[ib[s], j]:
                return [(("immediate_stoichiometry",), {"species": s, "reaction": j, "a": float(Ua[ia[s], j]), "b": float(Ub[ib[s], j])})]
            if Da[ia[s], j] != Db[ib[s], j]:
                return [(("delayed_stoichiometry",), {"species": s, "reaction": j, "a": float(Da[ia[s], j]), "b": float(Db[ib[s], j])})]
    propa, propb = A.get_propensities(), B.get_propensities()
    para, parb = np.array(A.get_parameter_values(), dtype=float), np.array(B.get_parameter_values(), dtype=float)
    for st_ in states:
        xa, xb = _vec(A, st_), _vec(B, st_)
        for t in times:
            for j in range(len(propa)):
                vals = [("deterministic", propa[j].py_get_propensity(xa, para, t), propb[j].py_get_propensity(xb, parb, t)),
                        ("stochastic", propa[j].py_verif_stochastic_propensity(xa, para, t), propb[j].py_verif_stochastic_propensity(xb, parb, t))]
                for v in vols:
                    vals.append(("volume", propa[j].py_get_volume_propensity(xa, para, v, t), propb[j].py_get_volume_propensity(xb, parb, v, t)))
                    vals.append(("stochastic_volume", propa[j].py_verif_stochastic_volume_propensity(xa, para, v, t),
                                 propb[j].py_verif_stochastic_volume_propensity(xb, parb, v, t)))
                for form, a, b in vals:
                    if not _close(float(a), float(b), 1e-10):
                        return [(("rate", form, type(propa[j]).__name__), {"reaction": j, "state": st_, "time": t, "a": float(a), "b": float(b)})]
    da, db = A.get_delays(), B.get_delays()
    for j in range(len(da)):
        if type(da[j]).__name__ != type(db[j]).__name__:
            return [(("delay_type",), {"reaction": j, "a": type(da[j]).__name__, "b": type(db[j]).__name__})]
        xa, xb = _vec(A, states[0]), _vec(B, states[0])
        py_seed_random(seed)
        ra = [da[j].py_get_delay(xa, para) for _ in range(10)]
        py_seed_random(seed)
        rb = [db[j].py_get_delay(xb, parb) for _ in range(10)]
        if any(not _close(a, b, 1e-12) for a, b in zip(ra, rb)):
            return [(("delay_parameters", type(da[j]).__name__), {"reaction": j, "a": ra[:3], "b": rb[:3]})]
    if check_rules:
        ra, rb = A.get_rules(), B.get_rules()
        if len(ra) != len(rb):
            return [(("rule_count",), {"a": len(ra), "b": len(rb)})]
        fa = [_freq_norm(r[2]) if len(r) > 2 else "repeated" for r in ra]
        fb = [_freq_norm(r[2]) if len(r) > 2 else "repeated" for r in rb]
        if fa != fb:
            return [(("rule_frequency",), {"a": [str(f) for f in fa], "b": [str(f) for f in fb]})]
        if ra:
            Ia, Ib = ModelCSimInterface(A), ModelCSimInterface(B)
            snap_a, snap_b = dict(A.get_parameter_dictionary()), dict(B.get_parameter_dictionary())
            try:
                for st_ in states[:4]:
                    for t in list(times) + list(scheduled_times):
                        for step in (0, 1):
                            xa, xb = _vec(A, st_), _vec(B, st_)
                            A.set_params(snap_a); B.set_params(snap_b)
                            Ia.py_apply_repeated_rules(xa, t, step)
                            Ib.py_apply_repeated_rules(xb, t, step)
                            for s in ia:
                                if not _close(float(xa[ia[s]]), float(xb[ib[s]]), 1e-10):
                                    return [(("rule_effect_on_species",), {"species": s, "time": t, "rule_step": step,
                                                                           "a": float(xa[ia[s]]), "b": float(xb[ib[s]]), "state": st_})]
                            qa, qb = A.get_parameter_dictionary(), B.get_parameter_dictionary()
                            for p in qa:
                                if not _close(float(qa[p]), float(qb[p]), 1e-10):
                                    return [(("rule_effect_on_parameter",), {"parameter": p, "time": t, "rule_step": step,
                                                                             "a": float(qa[p]), "b": float(qb[p])})]
            finally:
                A.set_params(snap_a)
                B.set_params(snap_b)
    return out
