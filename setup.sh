#!/bin/sh
# setup_cmd: offline install of the two pure-python packages the framework needs beside the repository's
# own packages, then a first build of /repo's extension modules from its working tree.
cd "$(dirname "$0")" || exit 2
export PIP_NO_INDEX=1
/venv/bin/python -c "import hypothesis" 2>/dev/null || /venv/bin/pip install -q --no-index --find-links /opt/veriftools/wheels hypothesis
/venv/bin/python -c "import jsonschema" 2>/dev/null || /venv/bin/pip install -q --no-index --find-links /opt/veriftools/wheels jsonschema
/venv/bin/python -m vf.build || exit 2
/venv/bin/python -c "import hypothesis, bioscrape.types, bioscrape.simulator, bioscrape.lineage" || exit 2
echo "setup ok"
