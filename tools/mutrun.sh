#!/bin/sh
# Sensitivity experiment in a scratch worktree (never in /repo):
#   tools/mutrun.sh <name> <patch-file> <forward|reverse> <tier> <seed> <ID> [ID...]
# creates /tmp/mr_<name> from /repo HEAD (with the current build output, so only changed modules are rebuilt), applies the
# patch, runs the listed checks against it (VERIF_REPO / VERIF_OUT), prints one line per check, removes the worktree.
name=$1; patch=$2; dir=$3; tier=$4; seed=$5; shift 5
d=/tmp/mr_$name
cd "$(dirname "$0")/.." || exit 2
git -C /repo worktree add --detach "$d" HEAD >/dev/null 2>&1 || { echo "cannot create $d"; exit 2; }
find "$d/bioscrape" "$d/lineage" "$d/setup.py" \( -name "*.pyx" -o -name "*.pxd" -o -name "setup.py" \) -exec touch -d "2020-01-01" {} +
cp -a /repo/bioscrape/*.cpp /repo/bioscrape/*.so "$d/bioscrape/"
cp -a /repo/lineage/*.cpp "$d/lineage/"
cp -a /repo/build "$d/build"
if [ "$dir" = "reverse" ]; then opt="-R"; else opt=""; fi
if [ "$dir" = "revert" ]; then
  # $patch is a commit id: let git undo it with a three-way merge (works when later commits touched the same lines)
  if ! git -C "$d" revert --no-commit "$patch" >/dev/null 2>&1; then echo "PATCH-FAILED $name"; git -C /repo worktree remove --force "$d"; exit 3; fi
elif ! git -C "$d" apply $opt "$patch"; then echo "PATCH-FAILED $name"; git -C /repo worktree remove --force "$d"; exit 3; fi
mkdir -p "$d/_vout"
for id in "$@"; do
  t0=$(date +%s)
  VERIF_REPO=$d VERIF_OUT=$d/_vout VERIF_SEED=$seed ./check $id --tier $tier > "$d/_vout/$id.log" 2>&1
  rc=$?
  sigs=$(grep "root cause" "$d/_vout/$id.log" | sed 's/.*root cause: //' | tr '\n' ';' | cut -c1-400)
  echo "MUTRUN $name $id seed=$seed rc=$rc wall=$(( $(date +%s) - t0 ))s $sigs"
  [ $rc -eq 2 ] && tail -5 "$d/_vout/$id.log"
done
mkdir -p /tmp/mutlogs && cp "$d"/_vout/*.log /tmp/mutlogs/ 2>/dev/null
for f in "$d"/_vout/*.log; do cp "$f" "/tmp/mutlogs/${name}_$(basename $f)"; done
git -C /repo worktree remove --force "$d"
