#!/venv/bin/python
"""Print the sensitivity table (markdown) from seeded/*/meta.json and the revert-of-fix log."""
import glob, json, os, re, sys
ROOT = os.path.dirname(os.path.dirname(os.path.abspath(__file__)))
rows = []
for p in sorted(glob.glob(os.path.join(ROOT, "seeded", "*", "meta.json"))):
    m = json.load(open(p))
    det = []
    for cid, c in sorted(m["checks_run_against_it"].items()):
        first = (c.get("history") or [{}])[0].get("exit") if c.get("history") else None
        tag = f"{cid}: " + ("caught" if c["detected"] else "MISSED")
        if c["detected"] and first == 0:
            tag += " (missed before the check was extended)"
        sig = (c.get("root_causes") or [""])[0]
        det.append(tag + (f" - `{sig[:70]}`" if sig else ""))
    rows.append(f"| {m['id']} | {m['breaks_property']} | {m['change']} | {m['needs_to_manifest']} | {'; '.join(det)} |")
print("| seeded change | property | what it changes | needs | checks (quick tier, generated search only) |")
print("|---|---|---|---|---|")
print("\n".join(rows))
