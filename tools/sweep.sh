#!/bin/sh
# usage: tools/sweep.sh <tier> <seed> [ids...]   - runs the checks one after the other, prints one summary line each
cd "$(dirname "$0")/.." || exit 2
tier=$1; seed=$2; shift 2
ids=${*:-C01 C02 C03 C04 C05 C06 C07 C08 C09 C10 C11 C12 C13 C14 C15 C16 C17 C18 C19 C20}
for id in $ids; do
  t0=$(date +%s)
  VERIF_SEED=$seed ./check $id --tier $tier > /tmp/sweep_$$.log 2>&1
  rc=$?
  echo "== $id seed=$seed tier=$tier rc=$rc wall=$(( $(date +%s) - t0 ))s"
  grep -E "^\[C|VIOLATION|HARNESS|root cause" /tmp/sweep_$$.log | cut -c1-300
done
rm -f /tmp/sweep_$$.log
