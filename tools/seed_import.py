#!/venv/bin/python
"""Import confirmed seeded changes from a staging directory into /verif/seeded/<name>/ and (re)write their meta.json
from the experiment log.

usage: tools/seed_import.py <stage-dir> <queue-log> [name ...]

stage-dir/<name>/{patch.diff,demo.py,notes.md} were written by an independent sub-agent that saw only the property
text; the queue log holds the lines printed by tools/mutconfirm.sh (CONFIRM / MUTRUN).  The LAST run of a check for a
mutant is the one recorded (earlier runs are kept under "history")."""
import json
import os
import re
import shutil
import sys

ROOT = os.path.dirname(os.path.dirname(os.path.abspath(__file__)))

WHAT = {
 "C01_A": ("C01", "MassActionPropensity.initialize stores the number of distinct reactants instead of the reaction order as the volume exponent",
           "mass action of order >= 3 with a repeated reactant, a volume mode, V != 1"),
 "C01_B": ("C01", "ModelCSimInterface.compute_stochastic_volume_propensities calls the deterministic volume form (falling factorial lost)",
           "a repeated reactant, stochastic+volume mode, through the plain interface only"),
 "C02_A": ("C02", "MinTerm.volume_evaluate evaluates its first argument without the volume",
           "min(...) whose (sympy-ordered) first argument contains 'volume' and decides the minimum, volume != 1"),
 "C02_B": ("C02", "parse_expression declares species symbols non-negative to sympy (abs(X) -> X, max(X,0) -> X, Heaviside(X+1) -> 1 at parse time)",
           "a negative species value at evaluation time and one of the rewritten constructs"),
 "C03_A": ("C03", "_create_stochiometric_matrices skips the delayed stoichiometry when the model has no delay object",
           "a delayed reactant/product list on reactions whose delay type is none"),
 "C03_B": ("C03", "calculate_deterministic_derivative adds a reaction's contribution only when its rate is > 0",
           "a general rate that is negative at the evaluated state (e.g. kf*A - kr*B)"),
 "C04_A": ("C04", "prep_deterministic_simulation skips species whose immediate stoichiometric coefficient is 0 before adding the delayed part",
           "deterministic simulation of a reaction whose delayed species does not also change immediately"),
 "C04_B": ("C04", "_helper_simulate passes self.hmax instead of the hmax keyword to odeint (keyword silently dropped)",
           "the hmax keyword together with a narrow time-dependent pulse after a long quiet period"),
 "C05_A": ("C05", "array_sum 'optimised' with a paired loop that double-counts one entry and drops the last for odd lengths >= 5",
           "a model with an odd number (>= 5) of reactions whose third-from-last and last propensities differ"),
 "C05_B": ("C05", "SSASimulator reads the time grid through a raw data pointer (ignores strides)",
           "a non-contiguous time grid array (strided slice, column of a 2-d array)"),
 "C06_A": ("C06", "MassActionPropensity.get_stochastic_volume_propensity calls get_propensity (no falling factorial / guard)",
           "mass action with >= 3 reactant slots and a repeated species, volume-aware stochastic simulator, species running down"),
 "C06_B": ("C06", "safe interface's required-copies table uses min(update, delay_update) instead of summing both parts",
           "safe mode, a reaction consuming the same species immediately and after its delay, count reaching 1"),
 "C07_A": ("C07", "apply_repeated_volume_rules passes (time, volume) in swapped order to execute_volume_rule",
           "a volume-carrying mode and a rule reading t or volume (or a start/timed rule)"),
 "C07_B": ("C07", "volume_simulate truncates a divided result at current_index+1 (one unwritten row: zeros, volume 0)",
           "a Volume object that divides inside the grid, stochastic without delay"),
 "C08_A": ("C08", "create_rule no longer un-initialises the model (only _add_param does)",
           "a rule without parameters added to an already initialised model and no other edit before simulating"),
 "C08_B": ("C08", "normal_rv caches the second Box-Muller variate; py_seed_random does not clear the cache",
           "a simulation path that draws normal variates (gaussian/gamma delays, volume) and a leftover variate at seeding time"),
 "C09_A": ("C09", "GeneralODERule.rule_volume_operation reads state[dest] instead of params[dest] for a parameter target",
           "an ODE rule whose target is a parameter, in a volume-carrying mode or lineage simulation"),
 "C09_B": ("C09", "Model._create_vectors no longer clears c_repeat_rules (rules registered again on every initialisation)",
           "a model initialised by its constructor, then edited structurally, then simulated"),
 "C10_A": ("C10", "ArrayDelayQueue.add_reaction loses its upper clamp (far-future entries wrap around the ring buffer)",
           "a delay that ends beyond the simulated horizon"),
 "C10_B": ("C10", "gamma_rv uses erlang_rv (rounded shape) for k <= 4",
           "a gamma delay with a non-integer shape <= 4"),
 "C11_A": ("C11", "MassActionPropensity volume exponent = number of distinct reactants (as C01_A)",
           "order >= 3 with a repeated reactant, V != 1"),
 "C11_B": ("C11", "VolumeSSASimulator's volume clock starts at timepoints[0]+dt instead of initial_time+dt",
           "a reported grid whose first time lies after the start of the simulation"),
 "C12_A": ("C12", "delay annotation lists each delayed species once (multiplicity of a delayed species lost)",
           "a delayed reactant/product list naming the same species twice"),
 "C12_B": ("C12", "add_rule writes rule formulas through parseL3Formula without the log-as-ln setting",
           "a rule whose right-hand side uses log()"),
 "C13_A": ("C13", "a reaction-local parameter equal in id and value to an existing parameter is merged instead of renamed",
           "an id collision with equal values and a rule that assigns the global"),
 "C13_B": ("C13", "import_sbml_species: elif - a set initial amount of 0 now also overrides the concentration",
           "a species carrying both attributes with amount exactly 0"),
 "C14_A": ("C14", "add_reaction counts multiplicities with itertools.groupby (adjacent runs only)",
           "a repeated species interleaved with another one in the reactant/product list (A, B, A)"),
 "C14_B": ("C14", "add_parameter rounds exported values to 12 decimals (absolute)",
           "a very small or many-digit parameter value"),
 "C15_A": ("C15", "the likelihood no longer resets the model to its default parameters before writing theta",
           "per-trajectory parameter conditions with different key sets and >= 2 evaluations"),
 "C15_B": ("C15", "extract_data selects measurement columns with a boolean mask (data-frame order instead of measurement order)",
           ">= 2 data frames, >= 2 measured species, measurement list order != column order"),
 "C16_A": ("C16", "gamma/beta priors computed directly in log space: 0*log(0) = nan at the edge of the support for shape 1",
           "gamma or beta prior with shape exactly 1 and the value exactly on the support boundary"),
 "C16_B": ("C16", "likelihood functions test np.isinf(lp) instead of not np.isfinite(lp) (nan from log-gaussian prior passes)",
           "a log-gaussian prior without 'positive' and a non-positive proposed value, through get_likelihood_function"),
 "C17_A": ("C17", "Model.__getstate__ ships None for delay_update_array when has_delay is false; __setstate__ rebuilds zeros",
           "a reaction with a delayed part but delay type none, initialised model, no re-initialisation after restoring"),
 "C17_B": ("C17", "Schnitz.__getstate__ drops the parent; __setstate__ re-links parents from the daughters",
           "a sub-lineage / single Schnitz / one-directional links pickled on their own"),
 "C18_A": ("C18", "compute_Zj no longer restores the parameter after central/forward/backward differences",
           "a non-default difference scheme; parameter values inspected afterwards or a second call"),
 "C18_B": ("C18", "SensitivityAnalysis evaluates through SafeModelCSimInterface (clamps negative states / propensities)",
           "an interior state closer than the stencil to 0, or a rate that is negative"),
 "C19_A": ("C19", "a division event loses the num_division_rules offset (partitioned with a division rule's splitter)",
           "a model with a division rule and a division event whose splitters differ"),
 "C19_B": ("C19", "dead daughters are dropped from the cell-state work list but not from the Schnitz list (indices misaligned)",
           "a death mechanism, a daughter that dies and other cells that divide later"),
 "C20_A": ("C20", "upper clamp of ArrayDelayQueue.add_reaction off by one (index == num_cols wraps to the earliest slot)",
           "a requested time exactly one slot past the horizon"),
 "C20_B": ("C20", "clear_copy rebuilt through the constructor (start_index reset to 0): partition parts deliver at rotated slots",
           "a queue advanced by a non-multiple of its length, unequal slot counts, then partitioned and drained"),
}

# second wave: the authors were also told which changes already existed for the property, to force different root causes
WHAT.update({
 "W2C01_A": ("C01", "BimolecularPropensity same-species stochastic rate k*s*(s-1) without max(s-1, 0)", "a homodimer reaction, stochastic mode, a real-valued count strictly between 0 and 1"),
 "W2C01_B": ("C01", "create_reaction writes the default 'species' string into the caller's parameter dict before copying it", "two mass-action reactions with different reactants built from one shared dict object"),
 "W2C02_A": ("C02", "parse_expression caches compiled Term trees keyed by species *names* (not indices)", "two models in one process with the same expression and the same species names in a different declaration order"),
 "W2C02_B": ("C02", "literal rational exponents built with C integer division (X^(1/2) -> X^0)", "an exponent written as a ratio of integer literals"),
 "W2C03_A": ("C03", "create_reaction treats every species on both sides as a catalyst (left out of the update) even when the counts differ", "a species on both sides with different multiplicities (X -> 2X, 3A -> A)"),
 "W2C03_B": ("C03", "_initialize sets initialized=True before check_parameters (a refused model stays flagged as initialised)", "a second attempt (interface / simulation) after a refused initialisation"),
 "W2C04_A": ("C04", "the ODE right-hand side is bound to the interface prepared last, not to the one simulated", "several interfaces prepared before one of them is simulated with DeterministicSimulator.py_simulate"),
 "W2C04_B": ("C04", "calculate_deterministic_derivative uses the stochastic propensities", "mass action with a repeated reactant (2A -> ...) in a deterministic simulation"),
 "W2C05_A": ("C05", "SafeModelCSimInterface.compute_stochastic_propensities calls get_propensity (deterministic form)", "safe interface and a repeated reactant"),
 "W2C05_B": ("C05", "SSASimulator treats Lambda < 1e-12 (instead of == 0) as absorbing", "very small rate constants with a correspondingly long time grid"),
 "W2C06_A": ("C06", "MassActionPropensity.initialize merges only adjacent repeats of a species in the reactant string", "order >= 3 mass action whose repeated species is not adjacent in the reactant list (B, A, B)"),
 "W2C06_B": ("C06", "ArrayDelayQueue.advance_time clears slot (start_index - 1) % num_cols in unsigned arithmetic", "a delay queue whose length is not a power of two and that wraps with entries pending"),
 "W2C07_A": ("C07", "GeneralAssignmentRule.rule_volume_operation evaluates a parameter-target rule without the volume", "a parameter-assigning rule reading 'volume', a species rule reading that parameter, a volume != 1 mode"),
 "W2C07_B": ("C07", "DelayVolumeSSASimulator works on the interface's initial-state array in place (no copy)", "a delay+volume run followed by any further simulation of the same model / interface"),
 "W2C08_A": ("C08", "Model._create_vectors no longer clears c_delays", "initialise, add a reaction with a different delay, initialise again, simulate with the delay simulator"),
 "W2C08_B": ("C08", "DelayVolumeSSASimulator: ascontiguousarray instead of copy of the initial state (model's initial condition overwritten)", "a delay+volume simulation, then inspecting or re-simulating the model"),
 "W2C09_A": ("C09", "SSASimulator no longer sets rule_step=1 in the zero-total-propensity branch", "dt / ODE rules on a model whose reactions run out part-way through the run"),
 "W2C09_B": ("C09", "AdditiveAssignmentRule accumulates directly into its (zeroed) target", "an additive rule whose target is one of its own summands (T = T + X)"),
 "W2C10_A": ("C10", "DelaySSASimulator's delivery loop applies the delayed stoichiometry once per slot instead of once per queued firing", ">= 2 firings of one reaction landing in the same queue slot"),
 "W2C10_B": ("C10", "normal_rv caches the second Box-Muller variate already scaled by the previous caller's mean / std", "two delay distributions with different parameters drawing alternately"),
 "W2C11_A": ("C11", "SafeModelCSimInterface.compute_stochastic_volume_propensities ignores the volume", "safe interface, V != 1, a volume-dependent reaction"),
 "W2C11_B": ("C11", "VolumeSSASimulator infers the divided flag from the loop position (division at the very last grid tick unflagged)", "division reported exactly at the last grid time"),
 "W2C12_A": ("C12", "rule frequency annotation read with a \\w+ regex (2.5 -> 2)", "a rule whose firing time has a decimal point"),
 "W2C12_B": ("C12", "exported parameter values rounded to 12 decimals", "a very small parameter value"),
 "W2C13_A": ("C13", "import sums stoichiometries per species with '=' instead of '+='", "one reaction listing the same species in two speciesReference entries of one side"),
 "W2C13_B": ("C13", "all rate-rule reactions share one propensity dict (last formula wins)", ">= 2 rate rules with different formulas"),
 "W2C14_A": ("C14", "stochastic mass-action export subtracts the reactant's position instead of the falling-factorial offset", "stochastic export of mass action with a repeated reactant"),
 "W2C14_B": ("C14", "the log-as-ln parser setting is applied to a throw-away copy of libsbml's defaults", "a general rate containing log()"),
 "W2C15_A": ("C15", "set_init_species uses `sds[i].get(s) or default` (an explicit 0 is replaced by the model's value)", "an initial condition that sets a species to exactly 0 while the model's value is non-zero"),
 "W2C15_B": ("C15", "the p-th root is applied per trajectory instead of once", ">= 2 trajectories and norm order >= 2"),
 "W2C16_A": ("C16", "normalisation constants memoised per parameter name without invalidation", "the same interface evaluated again after its prior specification changed"),
 "W2C16_B": ("C16", "the 'positive' flag is not reset per parameter in check_prior", "a flagged parameter followed by an unflagged one evaluated at a negative value inside its support"),
 "W2C17_A": ("C17", "Model.__setstate__ no longer restores _dummy_param_counter", "copy a model that has numeric-literal parameters, then add a reaction with a numeric literal to the copy"),
 "W2C17_B": ("C17", "VolumeCellState.__reduce__ rebuilds through the constructor (DelayVolumeCellState loses its queue)", "a DelayVolumeCellState with pending delayed reactions"),
 "W2C18_A": ("C18", "py_get_jacobian / py_get_sensitivity_to_parameter reuse a cached SensitivityAnalysis object (stale parameter snapshot)", "analyse, change parameter values, ask for a sensitivity on the same model object"),
 "W2C18_B": ("C18", "compute_J skips the columns of species that no reaction consumes", "a catalyst or a regulator that is never consumed"),
 "W2C19_A": ("C19", "truncate_timepoints_less_than uses ceil((value - t0) / dt) instead of scanning the grid", "a non-dyadic grid step and a division at an unlucky grid index"),
 "W2C19_B": ("C19", "GeneralVolumeSplitter subtracts the whole first-daughter state from the second (duplicated species become 0)", "a GeneralVolumeSplitter with a non-empty 'duplicate' list"),
 "W2C20_A": ("C20", "ArrayDelayQueue.copy() aliases the ring buffer (ascontiguousarray)", "a copy followed by a mutation of one queue and a read of the other"),
 "W2C20_B": ("C20", "advance_time clears (start_index - 1) % num_cols in unsigned arithmetic", "a queue of 3 slots that wraps with an entry pending"),
})

# third wave: authors asked for hard-to-notice changes (cooperating sites, rare branches, call sequences, corners)
WHAT.update({
 "W3C01_A": ("C01", "Propensity.get_stochastic_volume_propensity (base class) falls back to the volume-free stochastic form", "constitutive or Hill reaction, stochastic+volume mode, V != 1"),
 "W3C01_B": ("C01", "MassActionPropensity.initialize merges repeated reactants only when adjacent (A*B*A)", "order >= 3 with a repeated species separated by another one, stochastic modes"),
 "W3C02_A": ("C02", "restore_binary_term maps 'MinTerm' to MaxTerm (pickled copies evaluate min as max)", "a min(...) in an expression of a model that went through pickle / deepcopy"),
 "W3C02_B": ("C02", "create_rule gives the last parameter symbol of a species-targeted rule a placeholder value 0", "an undeclared name that comes last in the rule's right-hand side"),
 "W3C03_A": ("C03", "create_reaction builds the delayed-product coefficient from the immediate update dict", "a delayed product that repeats, is also a delayed reactant, or changes immediately in the same reaction"),
 "W3C03_B": ("C03", "prep_deterministic_simulation no longer clears its compressed stoichiometry (allocate-once guard)", "the same interface prepared more than once"),
 "W3C04_A": ("C04", "prep_deterministic_simulation uses vector.resize (rows kept, entries appended again)", "one interface passed to py_simulate_model more than once"),
 "W3C04_B": ("C04", "the mxstep retry branch rebinds the interface's parameter array to a private copy", "a run that needs > 500 steps between two points, then Model.set_params and the same interface again"),
 "W3C05_A": ("C05", "MassActionPropensity.get_stochastic_propensity returns 0 when count == multiplicity (<= instead of <)", "order >= 3 mass action with a reactant at exactly its multiplicity"),
 "W3C05_B": ("C05", "safe interface resets its 'under-supplied' flag once per call instead of once per reaction", "safe mode, >= 2 reactions, an earlier-listed reaction depleted while a later one is enabled"),
 "W3C06_A": ("C06", "VolumeSSASimulator adds the delayed stoichiometry only if requires_delay() (never true)", "a delay model simulated with the volume simulator"),
 "W3C06_B": ("C06", "safe interface resets its 'under-supplied' flag once per call (as W3C05_B)", "safe mode, >= 2 reactions, a reaction that runs dry before a later-listed one"),
 "W3C07_A": ("C07", "py_simulate_model tests `volume is False / is True` (numpy booleans fall through)", "the volume flag given as a numpy boolean"),
 "W3C07_B": ("C07", "c_repeat_rules cleared in create_rule instead of _create_vectors (rules registered again on re-initialisation)", "a model with rules initialised a second time"),
 "W3C08_A": ("C08", "check_species rebinds species_values on every initialisation (interfaces keep the old array)", "interface built, py_initialize again, set_species, simulate through the old interface"),
 "W3C08_B": ("C08", "py_simulate_model caches one simulator object per kind (atol / rtol keywords stick)", "a deterministic call with its own tolerances, then a later call without"),
 "W3C09_A": ("C09", "LineageModel constructor: a 2-tuple rule inherits the frequency of the preceding 3-tuple", "LineageModel built with a list mixing (type, attrs, freq) and (type, attrs) rules"),
 "W3C09_B": ("C09", "scheduled rules fire whenever |t - T| < dt/2 instead of at t == T", "a reaction within half a grid step of the scheduled time"),
 "W3C10_A": ("C10", "SSASimulator adds the delayed stoichiometry into the model's shared update array in place", "a delay model simulated with the plain SSA and then simulated again"),
 "W3C10_B": ("C10", "ArrayDelayQueue.set_current_time resets start_index", "a run continued with the delay queue of a previous result"),
 "W3C11_A": ("C11", "MaxTerm.volume_evaluate evaluates its 2nd and later arguments without the volume", "a general rate with volume inside a non-first argument of max(...), V != 1"),
 "W3C11_B": ("C11", "VolumeSSASimulator checks division with the volume before the step (one tick late)", "a volume-threshold (state dependent) volume model"),
 "W3C12_A": ("C12", "import: delayed reactant/product lists leak from one delayed reaction to the next when empty", "two adjacent delayed reactions, the later with an empty delayed list"),
 "W3C12_B": ("C12", "generate_sbml_model caches documents, invalidated by structural edits only", "write, change a value with a setter, write again"),
 "W3C13_A": ("C13", "assignment rules whose right-hand side names no species are imported with frequency 'start'", "a species-free rule right-hand side"),
 "W3C13_B": ("C13", "rule_rxn no longer reset per rule (rate reaction re-appended by later assignment rules)", "an assignment rule listed after a rate rule"),
 "W3C14_A": ("C14", "write_sbml_model no longer forwards stochastic_model", "a stochastic export written to a file, mass action with multiplicity >= 2"),
 "W3C14_B": ("C14", "create_reaction writes the default 'species' string into the caller's dict (copy moved down)", "one dict object shared by several mass-action reactions"),
 "W3C15_A": ("C15", "get_initial_state uses row 0 when Nx0 == 1 (Nx0 is overwritten when no parameter conditions are given)", ">= 2 trajectories with different initial conditions and no parameter conditions"),
 "W3C15_B": ("C15", "per-trajectory reset restores only the current trajectory's condition keys", "parameter conditions with differing key sets"),
 "W3C16_A": ("C16", "with log_space_parameters the prior is checked on log(theta) instead of theta", "log_space_parameters=True through get_likelihood_function"),
 "W3C16_B": ("C16", "beta prior normalised with gamma(a+b)/(gamma(a)gamma(b)) (overflows above 171)", "beta prior with a + b > 171"),
 "W3C17_A": ("C17", "Model.__getstate__ de-duplicates delay objects by equality (which compares the type only)", ">= 2 delays of the same type with different parameters"),
 "W3C17_B": ("C17", "LineageModel.__setstate__ takes its event / rule counters from the rebuilt vectors", "a lineage model initialised twice, then copied"),
 "W3C18_A": ("C18", "compute_Zj applies assignment rules once, before perturbing the parameter", "a repeated assignment rule whose right-hand side contains the parameter"),
 "W3C18_B": ("C18", "compute_J evaluates the unperturbed point without the time argument", "time-dependent rate, time != 0, forward or backward difference"),
 "W3C19_A": ("C19", "GeneralVolumeSplitter.py_set_partitioning clears each index vector only when its key is present", "the same splitter configured twice, the second time without a 'perfect' entry"),
 "W3C19_B": ("C19", "LineageVolumeSplitter skips perfect species when the first daughter's integer share is 0 (left duplicated)", "a 'perfect' species with a single copy (p*n < 1)"),
 "W3C20_A": ("C20", "add_reaction clamps with an unsigned local (negative index becomes the last slot)", "a requested time more than 1.5 steps in the past"),
 "W3C20_B": ("C20", "binomial_partition walks num_cols - 1 slots (skips the horizon slot)", "an entry pending in the last slot when the queue is partitioned"),
})


# fourth wave: as the third, with the earlier six changes per property listed as already taken
WHAT.update({
 "W4C01_A": ("C01", "MassActionPropensity.num_species declared unsigned (order 0: volume exponent -1 wraps)", "the general mass-action class at order 0 (constructed directly, or species string ' '), a volume mode, V != 1"),
 "W4C01_B": ("C01", "safe interface's deterministic loop uses the stochastic copy-number gate (state < amount -> rate 0)", "safe interface, deterministic mode, a concentration below one firing's worth"),
 "W4C02_A": ("C02", "GeneralPropensity gains stochastic(-volume) overrides; the volume one passes (time, volume) in the wrong order", "a general rate mentioning volume or t, evaluated through the stochastic+volume entry point"),
 "W4C02_B": ("C02", "local sympy clash table without E (a species / parameter named E is read as Euler's number)", "the identifier E"),
 "W4C03_A": ("C03", "_create_stochiometric_matrices reads the parallel reaction_updates lists (stale entry after a refused create_reaction)", "a refused create_reaction call, then further reactions"),
 "W4C03_B": ("C03", "check_parameters lets the last parameter decide whether a value is missing", "a valueless parameter that is not the last one registered"),
 "W4C04_A": ("C04", "DeterministicSimulator.set_tolerance signature reordered in the .pxd only (atol / rtol exchanged)", "tolerances given through py_set_tolerance with atol != rtol"),
 "W4C04_B": ("C04", "Model.set_species rebinds species_values (astype copy); built interfaces keep the old array", "interface built, Model.set_species, simulate through that interface"),
 "W4C05_A": ("C05", "SSASimulator starts its clock at the first grid point instead of the interface's initial time", "a grid that starts after time 0"),
 "W4C05_B": ("C05", "SSASimulator caches the net stoichiometry keyed on (species, reactions) counts", "one simulator object used for two systems of equal dimensions"),
 "W4C06_A": ("C06", "SSASimulator adds the delayed stoichiometry into the model's own matrix in place", "a model with a delayed part simulated twice with the plain simulator"),
 "W4C06_B": ("C06", "safe interface's stochastic-volume routine tests state <= 0 instead of state < required copies", "safe + volume simulator, a reaction consuming >= 2 copies, a non-mass-action rate"),
 "W4C07_A": ("C07", "ModelCSimInterface loses its copying set_initial_state (the caller's array is kept)", "a pre-built interface given its state as an integer array or as a buffer changed afterwards"),
 "W4C07_B": ("C07", "VolumeSSASimulator merges rule_step into move_to_queued_time (dt rules not applied at the first row)", "a rule with frequency dt, stochastic, no delay, a volume"),
 "W4C08_A": ("C08", "Model._initialize sets initialized before the parameter / species checks", "a refused initialisation, the value supplied afterwards, no structural edit in between"),
 "W4C08_B": ("C08", "seed_random takes a 32-bit seed (a seed whose low 32 bits are zero means 'from the clock')", "a seed that is a multiple of 2**32, two runs in different seconds"),
 "W4C09_A": ("C09", "create_rule no longer defaults an ODE rule's frequency to dt (it runs at every event)", "an ODE rule declared without a frequency, reactions firing between grid points"),
 "W4C09_B": ("C09", "safe interface's count check resets negative species to 0 (after the rules, before the row is recorded)", "safe mode, a repeated rule whose value is negative"),
 "W4C10_A": ("C10", "Model._create_vectors no longer clears c_delays", "a model initialised, then given a delayed reaction, then simulated with delay"),
 "W4C10_B": ("C10", "GaussianDelay.get_delay returns |X| (the atom at zero delay disappears)", "a gaussian delay whose standard deviation is comparable to its mean"),
 "W4C11_A": ("C11", "an assignment rule that targets a parameter is evaluated without the volume", "a parameter-target rule reading 'volume', V != 1"),
 "W4C11_B": ("C11", "StochasticTimeThresholdVolume caches exp(g*dt) - 1 of the first dt it sees", "one volume object used on grids with different steps"),
 "W4C12_A": ("C12", "add_rule unsets the value of a parameter that an assignment rule targets", "a parameter-target assignment rule, non-zero declared value"),
 "W4C12_B": ("C12", "importer takes the un-annotated branch for general propensities and skips the delay block", "a general rate law with a delay"),
 "W4C13_A": ("C13", "renaming a colliding local parameter is applied to the document's rules as well", "a global p, a reaction-local p, a rule that reads p"),
 "W4C13_B": ("C13", "a rate rule whose formula starts with '-' becomes a degradation reaction with the remaining text as rate", "a rate rule '-a + b' / '-a - b'"),
 "W4C14_A": ("C14", "kinetic laws written with KineticLaw.setFormula (L1 grammar: -A^2 = (-A)^2, left-associative ^)", "a general rate with a minus directly in front of a power, or chained powers"),
 "W4C14_B": ("C14", "generate_sbml_model caches the document keyed on edit_count (value changes do not invalidate it)", "export, set_params, export again"),
 "W4C15_A": ("C15", "extract_data transposes a trajectory only when its shape differs from (T, M)", ">= 2 trajectories, measured species count equal to the number of time points"),
 "W4C15_B": ("C15", "the stochastic likelihood built for parameter conditions loses norm_order (falls back to 1)", "stochastic cost, parameter conditions, p != 1"),
 "W4C16_A": ("C16", "PIDInterface stores params_to_estimate in the prior dictionary's key order", "prior dictionary written in another order than params_to_estimate, the vector API"),
 "W4C16_B": ("C16", "gaussian prior clamps the density at machine epsilon before the logarithm", "a gaussian prior beyond ~8 standard deviations"),
 "W4C17_A": ("C17", "Model.__getstate__ ships the name->index dictionaries sorted by name (get_parameter_dictionary pairs by position)", "parameter names whose creation order is not sorted order, a copy read through get_parameter_dictionary"),
 "W4C17_B": ("C17", "LineageVolumeCellState.__init__: time or t0 / volume or v0", "a cell state at time exactly 0 with a non-zero birth time"),
 "W4C18_A": ("C18", "compute_J perturbs one work array in place and does not undo the +-2h points", "fourth-order scheme, a rate with a mixed second derivative"),
 "W4C18_B": ("C18", "parameter writes filtered with np.isclose (h is 'no change' for large parameters)", "sensitivity to a parameter >= 1000"),
 "W4C19_A": ("C19", "perfect-volume branch keeps the noisy share p for the binomial species", "volume mode perfect, partition noise > 0, a binomial species"),
 "W4C19_B": ("C19", "LineageSSASimulator keeps its cell / schnitz work lists between calls", "one simulator object used for two lineage simulations, a division in the first"),
 "W4C20_A": ("C20", "ArrayDelayQueue.num_pending counter not maintained by binomial_partition (parts look empty)", "a partition of a non-empty queue, then reading the parts"),
 "W4C20_B": ("C20", "get_next_reactions reads with num_reactions as the row stride", ">= 2 reactions, slot count != reaction count"),
})


# fifth wave: as the fourth (eight earlier changes per property listed as taken)
WHAT.update({
 "W5C01_A": ("C01", "safe interface's stochastic-volume loop resets its 'rate is zero' flag once per call instead of once per reaction", "safe + stochastic + volume, >= 2 reactions, an earlier-listed reaction short of a reactant"),
 "W5C01_B": ("C01", "repressing Hill laws rewritten as rate * (1 - occupancy) (cancels when occupancy is near 1)", "a repressing Hill type at (s/K)^n >= 1e7"),
 "W5C02_A": ("C02", "PowerTerm.evaluate clamps a negative base to 0 (non-volume path only)", "a power (or a division) whose base is negative at the evaluation point"),
 "W5C02_B": ("C02", "GeneralODERule loses its rule_volume_operation override (volume reads 1 on the volume path)", "an ODE rule whose rate mentions volume, V != 1"),
 "W5C03_A": ("C03", "Model.__init__ resets the delay fields once before the reaction loop (a 4-tuple inherits the previous 8-tuple's delay)", "a reactions= list with a plain reaction after a delayed one"),
 "W5C03_B": ("C03", "Model.__getstate__ swaps the two 'next free index' counters", "copy or pickle, then a reaction introducing a new species / parameter"),
 "W5C04_A": ("C04", "derivative buffer kept between runs and species with empty stoichiometry rows skipped (stale derivative entries)", "a catalyst / inert species and an earlier deterministic run with the same species count in the same process"),
 "W5C04_B": ("C04", "safe interface's deterministic derivative never resets its 'species at zero' flag", "safe=True, a species at exactly 0 listed before a consumed one"),
 "W5C05_A": ("C05", "MassActionPropensity counts multiplicities with itertools.groupby (adjacent repeats only)", "mass action of order >= 3 written A + B + A, stochastic modes"),
 "W5C05_B": ("C05", "VolumeSSASimulator records at most one requested time per step (if instead of while)", "requested times closer together than the simulator's volume tick"),
 "W5C06_A": ("C06", "VolumeSSASimulator truncates a divided result one row too late (an unwritten row of zeros)", "a volume object that divides inside the grid"),
 "W5C06_B": ("C06", "safe interface resets negative counts to zero in the live state", "safe + delay simulator, a delayed reactant over-drawn by queued completions"),
 "W5C07_A": ("C07", "time-point buffers declared C-contiguous in the plain and delay simulators", "a strided / column time grid, stochastic without volume"),
 "W5C07_B": ("C07", "Model.get_species_list returns a cached list object", "a caller that edits the returned list before asking for a data frame"),
 "W5C08_A": ("C08", "SSASimulator adds the delayed stoichiometry into the model's own matrix in place", "a delay model simulated twice with the plain simulator"),
 "W5C08_B": ("C08", "the ODE right-hand side works on the interface prepared last, not the one being simulated", "prepare interface A, prepare interface B, simulate A deterministically"),
 "W5C09_A": ("C09", "delay simulator's tie-break between a queue tick and a grid point (<= instead of <) skips the dt rules of that step", "delay simulator, a dt / ODE rule, a queue tick bit-equal to a grid point"),
 "W5C09_B": ("C09", "py_simulate_model no longer sets dt on a passed-in interface", "Interface= instead of Model=, an ODE rule, a grid step other than 0.01"),
 "W5C10_A": ("C10", "create_reaction builds the delayed-product coefficient from the immediate one", "a delayed product that also changes immediately, or is listed twice"),
 "W5C10_B": ("C10", "DelaySSASimulator skips the delay draw for reactions without a delayed *product*", "a delayed part consisting of delayed reactants only"),
 "W5C11_A": ("C11", "BimolecularPropensity loses its stochastic-volume override (A*A/V instead of A*(A-1)/V)", "2A -> ..., volume-aware stochastic simulator"),
 "W5C11_B": ("C11", "volume_simulate writes the volume back to the volume object at the top of the loop (one step lost per call)", "one cell followed in several consecutive calls with the same volume object"),
 "W5C12_A": ("C12", "the rule_frequency annotation is only written for non-repeated rules and the importer's default is set once before the loop", "a repeated rule listed after a start / dt / timed rule"),
 "W5C12_B": ("C12", "general rate laws written with KineticLaw.setFormula (Level 1 grammar)", "a general rate with a unary minus directly in front of a power"),
 "W5C13_A": ("C13", "import_sbml_parameters clamps values with fmax(value, 0)", "a negative global parameter"),
 "W5C13_B": ("C13", "parsed SBML documents cached by file name", "the same path read again after the file was rewritten"),
 "W5C14_A": ("C14", "add_parameter writes the value only if it is truthy (a zero is left unset)", "a parameter that is exactly 0"),
 "W5C14_B": ("C14", "create_reaction records the definition before _add_reaction can refuse it (phantom reaction in the export)", "a refused create_reaction call, then an export"),
 "W5C15_A": ("C15", "the deterministic likelihood takes the absolute residual only for p = 1", "an odd norm order >= 3 and a negative residual"),
 "W5C15_B": ("C15", "extract_data shifts each trajectory's time grid to start at 0 (list of data frames)", ">= 2 trajectories, a time column that does not start at 0, a time-dependent model"),
 "W5C16_A": ("C16", "the 'positive' flag is stripped in place from the caller's prior dictionary", "a second interface built from the same prior dictionary"),
 "W5C16_B": ("C16", "gamma prior computes rate**shape with np.power (wraps in int64)", "shape and rate written as Python ints with rate**shape >= 2**63"),
 "W5C17_A": ("C17", "reaction_list dropped from the pickle and zipped back from lists that are only parallel while initialised", "a model copied while uninitialised (or edited since its initialisation)"),
 "W5C17_B": ("C17", "MassActionPropensity gets pickling hooks that restore num_species as the number of distinct reactants", "order >= 3 with a repeated reactant, V != 1, on a copy"),
 "W5C18_A": ("C18", "_evaluate_model no longer copies the state (repeated rules write into the caller's work array)", "rules whose single pass is not idempotent (a rule listed before the one it reads)"),
 "W5C18_B": ("C18", "PositiveHillPropensity remembers (X/K)**n while X/K is unchanged", "sensitivity to a Hill exponent n"),
 "W5C19_A": ("C19", "an idle lineage cell without a growth rule jumps to the final time (division / death rules not re-checked)", "total propensity zero, no volume rule, a time-dependent division rule"),
 "W5C19_B": ("C19", "binom_rnd_f truncates the count instead of rounding it", "a binomially partitioned amount just below a whole number"),
 "W5C20_A": ("C20", "add_reaction's rounding half-step moved inside the division (half a time unit instead of half a slot)", "a grid step other than 1"),
 "W5C20_B": ("C20", "advance_time recomputes the next tick as a multiple of dt", "a starting time that is not a multiple of dt"),
})

# wave 6: one change per author, twelve properties, ten earlier changes per property listed as taken
WHAT.update({
 "W6C06_A": ("C06", "ArrayDelayQueue.add_reaction overwrites the slot count instead of adding to it", "two firings of one delayed reaction that round to the same queue slot"),
 "W6C07_A": ("C07", "the deterministic simulator restores only the first num_species parameters before re-applying rules to the rows", "more parameters than species, a rule assigning a late-indexed parameter from t, a species rule listed before it that reads it"),
 "W6C09_A": ("C09", "VolumeSSASimulator sets rule_step in its zero-propensity branch (dt rules run twice per step)", "stochastic + volume, total propensity exactly 0, a dt-frequency or ODE rule"),
 "W6C10_A": ("C10", "DelaySSASimulator queues a firing whose drawn delay is exactly 0 (delivered at the next grid point)", "a delayed part with a fixed delay 0 or gaussian(0, 0)"),
 "W6C11_A": ("C11", "PositiveHillPropensity.get_volume_propensity rewritten with V*K^n instead of V^n*K^n", "hillpositive with n != 1 in a volume-aware simulation with V != 1"),
 "W6C12_A": ("C12", "generate_sbml_model writes the delay annotation only when a delayed species list is non-empty", "a delayed reaction whose delayed reactants and products are both empty"),
 "W6C13_A": ("C13", "colliding local parameters are renamed by text substitution in the rate string", "a colliding local id that is a substring of another identifier in the same law"),
 "W6C14_A": ("C14", "the proportional Hill export appends *d only when d is a reactant or a listed modifier", "proportionalhillpositive whose d is a product but not a reactant"),
 "W6C16_A": ("C16", "bounded priors test their support as lower <= value < upper", "a value exactly on the upper bound of a uniform / log-uniform / beta prior"),
 "W6C18_A": ("C18", "_evaluate_model skips set_params when the (aliased, mutated in place) dict compares equal to the last one", "a parameter entering the first species' rate, any scheme but backward"),
 "W6C19_A": ("C19", "apply_division_rules returns the last division rule that fires instead of the first", "two division rules with different splitters firing at the same check"),
 "W6C20_A": ("C20", "binomial_partition leaves the reaction loop at the first empty entry of a slot", "two or more delayed reactions, a slot where a lower-indexed one is empty and a higher-indexed one pending"),
})


def parse_log(path):
    confirm, runs = {}, {}
    for line in open(path, errors="replace"):
        m = re.match(r"CONFIRM (\S+) build=(\S+) tests=\[(.*?)\] demo_with=(\S+) demo_without=(\S+)", line)
        if m:
            confirm[m.group(1)] = {"build": m.group(2), "tests": m.group(3), "demo_exit_with_change": m.group(4),
                                   "demo_exit_without_change": m.group(5)}
            continue
        m = re.match(r"MUTRUN (\S+) (C\d+) seed=(\d+) rc=(\d+) wall=(\d+)s ?(.*)", line)
        if m:
            name, cid = m.group(1), m.group(2)
            sigs = [s for s in m.group(6).strip().split(";") if s]
            runs.setdefault(name, {}).setdefault(cid, []).append(
                {"seed": int(m.group(3)), "exit": int(m.group(4)), "wall_s": int(m.group(5)), "root_causes": sigs[:6]})
    return confirm, runs


def main():
    stage, log = sys.argv[1], sys.argv[2]
    names = sys.argv[3:] or sorted(os.listdir(stage))
    confirm, runs = parse_log(log)
    for name in names:
        src = os.path.join(stage, name)
        if name not in WHAT or not os.path.isdir(src):
            continue
        c = confirm.get(name)
        if not c or c["build"] != "ok" or "54 passed" not in c["tests"] or c["demo_exit_with_change"] != "1" \
                or c["demo_exit_without_change"] != "0":
            print("not confirmed, skipped:", name, c)
            continue
        dst = os.path.join(ROOT, "seeded", name)
        os.makedirs(dst, exist_ok=True)
        for f in ("patch.diff", "demo.py", "notes.md"):
            if os.path.exists(os.path.join(src, f)):
                shutil.copy(os.path.join(src, f), os.path.join(dst, f))
        prop, what, needs = WHAT[name]
        checks = {}
        for cid, lst in runs.get(name, {}).items():
            last = lst[-1]
            checks[cid] = {"tier": "quick", "generated_search_only": True, "detected": last["exit"] == 1, **last,
                           "history": [{"exit": r["exit"], "root_causes": r["root_causes"][:3]} for r in lst[:-1]]}
        meta = {"id": name, "breaks_property": prop, "change": what, "needs_to_manifest": needs,
                "written_by": "independent sub-agent given only the property text and a scratch worktree",
                "confirmed": {"how": "tools/mutconfirm.sh in a scratch worktree of /repo HEAD: patch applied, rebuilt, "
                                     "unedited test suite run, demo.py run against the changed and the unchanged build", **c},
                "checks_run_against_it": checks,
                "note": "checks ran with VERIF_NO_REGRESS=1 (regression replays skipped), so a detection is the generated "
                        "search finding the change; 'history' lists earlier runs before the check was strengthened"}
        with open(os.path.join(dst, "meta.json"), "w") as f:
            json.dump(meta, f, indent=1)
        print("imported", name, {k: v["detected"] for k, v in checks.items()})


if __name__ == "__main__":
    main()
