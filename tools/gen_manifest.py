#!/venv/bin/python
"""Regenerate MANIFEST.json from the table below (claimed checks) and properties.jsonl (everything else goes to
not_applicable with the reason given in NOT_CLAIMED)."""
import json
import os
import subprocess
import sys

ROOT = os.path.dirname(os.path.dirname(os.path.abspath(__file__)))
sys.path.insert(0, ROOT)

# id -> (technique, level text, level note, design ref)
CLAIMED = {}
NOT_CLAIMED = {}


def claim(pid, technique, text, note, ref):
    CLAIMED[pid] = (technique, text, note, ref)


exec(open(os.path.join(ROOT, "tools", "manifest_table.py")).read())

props = [json.loads(l) for l in open(os.path.join(ROOT, "properties.jsonl"))]
ids = [p["id"] for p in props]
hook_commits = subprocess.run(["git", "-C", "/repo", "log", "--format=%H", "--grep", "verification hook"],
                              capture_output=True, text=True).stdout.split()
checks = []
for pid in ids:
    if pid not in CLAIMED:
        continue
    tech, text, note, ref = CLAIMED[pid]
    checks.append({
        "property_id": pid,
        "quick_cmd": f"./check {pid} --tier quick",
        "thorough_cmd": f"./check {pid} --tier thorough",
        "evidence_file": f"/verif/evidence/{pid}.json",
        "replay_cmd_template": f"./check {pid} --replay {{path}}",
        "engine": "vf",
        "level_claimed": {"category": "exploration", "text": text, "design_ref": ref},
        "level_note": note,
        "technique": tech,
    })
manifest = {
    "version": 1,
    "setup_cmd": "./setup.sh",
    "hooks": {
        "guard": "BIOSCRAPE_VERIF",
        "enable": "run-time guard: the checks export BIOSCRAPE_VERIF=1 for their worker processes; one in-place build "
                  "(cd /repo && /venv/bin/python setup.py build_ext --inplace) serves guard on and off",
        "baseline_off_cmd": "cd /repo && env -u BIOSCRAPE_VERIF /venv/bin/python -m pytest -ra -q -p no:cacheprovider "
                            "--timeout=900 --continue-on-collection-errors",
        "source_commits": hook_commits,
        "add_only": True,
    },
    "engines": [{"name": "vf", "path": "/verif/vf", "serves_properties": [c["property_id"] for c in checks],
                 "kind_free_text": "property-based testing: Hypothesis-driven generated search (structured strategies, "
                                   "operation-sequence generation for histories, exhaustive enumeration of small finite "
                                   "spaces) against explicit reference oracles; sharded over fresh worker processes with "
                                   "crash isolation; shrunk failures become JSON replay files"}],
    "checks": checks,
    "not_applicable": [{"property_id": pid, "reason": NOT_CLAIMED.get(pid, "check not built yet (work in progress)")}
                       for pid in ids if pid not in CLAIMED],
    "notes": "All checks: exit 0 held / exit 1 with VIOLATION lines / exit 2 harness error. VERIF_SEED selects the "
             "pseudo-random search; known findings and fixed defects are listed in known_findings.json.",
}
with open(os.path.join(ROOT, "MANIFEST.json"), "w") as f:
    json.dump(manifest, f, indent=1)
try:
    import jsonschema
    jsonschema.validate(manifest, json.load(open("/root/.vp/MANIFEST.schema.json")))
    print("MANIFEST.json valid;", len(checks), "checks claimed")
except ImportError:
    print("written (jsonschema unavailable)")
