#!/venv/bin/python
"""Promote a violation replay to a committed regression / known-finding entry.
usage: tools/promote.py <viol.json> <name> fixed|known <commit-or-dash> "<what>"
"""
import json, os, sys
ROOT = os.path.dirname(os.path.dirname(os.path.abspath(__file__)))
src, name, status, commit, what = sys.argv[1:6]
d = json.load(open(src))
prop = d["property"]
prefix = "regress_" if status == "fixed" else "known_"
dst = os.path.join("replays", prop, f"{prefix}{name}.json")
json.dump(d, open(os.path.join(ROOT, dst), "w"), indent=1, sort_keys=True)
kf = os.path.join(ROOT, "known_findings.json")
data = json.load(open(kf)) if os.path.exists(kf) else {"findings": []}
entry = {"status": status, "property": prop, "signature": d["signature"], "replay": dst, "what": what}
if status == "fixed":
    entry["commit"] = commit
    entry["line"] = f"fixed: property={prop} {commit} {what}"
data["findings"] = [e for e in data["findings"] if e["replay"] != dst] + [entry]
json.dump(data, open(kf, "w"), indent=1)
if os.path.abspath(src) != os.path.abspath(os.path.join(ROOT, dst)):
    os.remove(src)
print("wrote", dst)
