# table of claimed checks; exec'd by gen_manifest.py  (claim(id, technique, level text, level note, design ref))
_TB = ("trusted base: the reference oracles in /verif/vf (scipy / sympy / mpmath / numpy computations written from the "
       "documentation), Hypothesis 6.168, CPython; the in-place build of /repo's working tree")

claim("C16", "property-based testing: differential vs scipy.stats log-densities (Hypothesis)",
      "Generated search over the seven prior families x parameters x values (interior, within 1e-3..1e-12 of a support "
      "boundary on either side, clearly outside) x 1..4 parameters x positive flag, compared with scipy.stats logpdf "
      "to 1e-9 and with the reject-outside-support rule, through PIDInterface.check_prior and the posterior of "
      "InferenceSetup.cost_function. 24k cases quick / 400k thorough; no absence claim beyond the generated cases.",
      _TB, "DESIGN.md section 4 C16")

claim("C01", "property-based testing: exhaustive integer grid + Hypothesis search, differential vs closed-form rate laws",
      "Every propensity type x reactant multiset of order 0..4 x integer states x volumes is enumerated, and real-valued "
      "states / parameters / volumes are sampled (12k quick / 80k thorough multi-reaction models); all four evaluation "
      "modes through the bare propensity object, the plain and the safe interface are compared with closed forms written "
      "from the documentation (1e-10 relative).",
      _TB + "; the guarded probes py_verif_* expose the cdef stochastic rate methods unchanged", "DESIGN.md section 4 C01")

claim("C20", "property-based testing: generated operation histories against a dictionary model (model-based, Hypothesis)",
      "Operation sequences add / read-and-advance / copy / partition (<= 40 quick, <= 120 thorough; 20k / 300k "
      "histories) are executed on ArrayDelayQueue and on a dictionary model with the nearest-slot and clamping rule; "
      "next-queue-time, delivered counts, delivery order, exactly-once accounting, copy equality/independence and "
      "partition sums are checked after every step and by draining every queue at the end.",
      _TB, "DESIGN.md section 4 C20")

claim("C02", "property-based testing: generated expression trees, differential vs 50-digit mpmath evaluation (Hypothesis)",
      "Trees (depth <= 5, full operator set, clash / underscore / legacy identifiers) are printed in varied legal "
      "spellings and evaluated through parse_expression, a general propensity, an assignment rule and a growth law "
      "at 5 points each (12k trees quick / 120k thorough); the oracle evaluates the tree itself in 50-digit arithmetic "
      "(no parser), with a stated finite-domain rule; unknown names must be rejected, unsupported constructs rejected "
      "or still right.", _TB, "DESIGN.md section 4 C02")

claim("C03", "property-based testing: generated reaction lists, stoichiometry by counting + derivative identity (Hypothesis)",
      "Models with shuffled declaration order, repeats, catalysts, empty sides, delayed parts and every propensity type "
      "(5k quick / 60k thorough): update arrays vs counted stoichiometry by name; interface and safe-interface "
      "derivative vs sum (S+S_d) x own rate at sampled states; missing parameter values must make construction fail.",
      _TB, "DESIGN.md section 4 C03")

claim("C07", "property-based testing: exhaustive enumeration of the option lattice x generated models, result-shape oracle",
      "All 576 option combinations (incl. a dividing volume object and numpy boolean flags) are enumerated for every "
      "generated model and grid (24 models quick / 300 thorough); outcomes are classified as explicit option error vs "
      "failure from inside, and returned results are checked for row count, exact time axis, column order, volume column "
      "and first row = initial condition with assignment rules applied.", _TB, "DESIGN.md section 4 C07")

claim("C05", "property-based testing: generated finite-state networks, statistical differential vs chemical master equation (Hypothesis)",
      "1000 (quick) / 8000 (thorough) generated networks (1..7 reactions; grids from 0 or later, contiguous or strided arrays) x 10k / 40k seeded consecutive SSA paths are compared with the "
      "master equation solved by matrix exponential on the enumerated state space: pooled chi-square on all marginals "
      "and consecutive two-time joints with a two-stage confirmation (false-alarm probability < 1e-13 per case); "
      "plain interface, safe interface (with the guarded reference propensities) and py_simulate_model.  A 5% bias in a "
      "rate constant is detected at this sample size (measured).", _TB, "DESIGN.md section 4 C05, section 3.3-3.4")

claim("C06", "property-based testing: generated networks and seeded paths, exact invariants over reported rows (Hypothesis)",
      "30k (quick) / 300k (thorough) seeded paths over seven simulators on instrumented networks (private firing and "
      "delivery counters): exact reaction-combination identity, integrality, conservation laws from the rational left "
      "null space, non-negativity, absorption at zero total propensity, and the safe interface's guard table.",
      _TB, "DESIGN.md section 4 C06")

claim("C04", "property-based testing: generated ODE networks, differential vs matrix exponential / high-accuracy integration (Hypothesis)",
      "6k (quick) / 60k (thorough) generated linear, nonlinear and time-dependent networks on uniform and non-uniform "
      "grids through py_simulate_model and DeterministicSimulator: exact initial row and time axis, every row within "
      "2e-5 (1+max|x|) of the closed-form / DOP853(1e-11) solution of the reference right-hand side (which includes the "
      "delayed stoichiometry).", _TB + "; a 30-digit mpmath matrix exponential and scipy's DOP853", "DESIGN.md section 4 C04")

claim("C11", "property-based testing: statistical differential vs volume-scaled master equation + growth/division invariants (Hypothesis)",
      "(a) 500 / 5000 generated networks (incl. open birth-death families via finite-state projection) x 10k / 40k "
      "seeded VolumeSSA paths at constant V vs the CME with volume-scaled reference propensities (two-stage chi-square); "
      "(b) 12k / 200k generated growth/division scenarios for both volume models, with and without noise, including "
      "models whose total propensity is or becomes zero: prefix-of-grid, truncated => flagged, positivity, monotonicity, "
      "one-step band around V0 e^{gt}, predicted division step.", _TB, "DESIGN.md section 4 C11")

claim("C10", "property-based testing: exact delivery accounting on instrumented delay networks + statistical differentials (Hypothesis)",
      "30k / 300k seeded delay-SSA paths with firing and delivery counters: exact per-row accounting, exactly-once "
      "delivery including the drained final queue, delivery-time sandwich for fixed delays, horizon-exceeding delays, "
      "negative Gaussian draws; 200 / 2000 delay parameter sets x 20k / 80k py_get_delay draws vs scipy.stats (KS); "
      "500 / 5000 networks for zero-delay and delay-unaware simulators vs the master equation of the net network.",
      _TB, "DESIGN.md section 4 C10")

claim("C09", "property-based testing: generated rule sets x six simulation modes, rule equations evaluated on every reported row (Hypothesis)",
      "12k / 150k generated (model, rule set, grid, mode, seed) cases: chained repeated assignments (species and "
      "parameters) must hold on every row in declaration order; rates must see rule-updated values; scheduled rules, "
      "dt counters and ODE rules are checked row by row for firing time and step count, with and without reaction "
      "events, in SSA, safe, volume, delay and lineage single-cell simulation; deterministic mode for the repeated "
      "rules.", _TB, "DESIGN.md section 4 C09")

claim("C14", "property-based testing: translation check of exported kinetic laws with an independent MathML-AST interpreter (Hypothesis)",
      "3k / 40k generated models x deterministic / stochastic export: the written file is read with libsbml alone; "
      "stoichiometries, identifier resolution and the value of every kinetic law at sampled states are compared with "
      "the model's own rate objects.  The Hill-family kinetic laws are a recorded known finding (8 signatures); the "
      "search continues behind them on mass action, general rates and stoichiometry.",
      _TB + "; libsbml's reader", "DESIGN.md section 4 C14, section 6 item 10")

claim("C13", "property-based testing: libsbml-built documents, differential vs reference SBML semantics computed from the generated trees (Hypothesis)",
      "5k / 60k generated plain SBML L3V2 documents (colliding local parameters, stoichiometries 1..3, modifiers, "
      "amount / concentration / unset species, interleaved assignment and rate rules): initial values, parameter "
      "values, stoichiometry, rule count, post-rule state and derivative at sampled states must equal the reference "
      "semantics to 1e-9.  Left-nested powers in kinetic laws are a recorded known finding probed by its own labelled "
      "class.", _TB + "; libsbml's writer and reader", "DESIGN.md section 4 C13")

claim("C12", "property-based testing: SBML write/read round trip with a behavioural model comparator (Hypothesis)",
      "5k / 40k generated models (all propensity types, orders 0..4, three delay families, additive / assignment rules "
      "with every frequency, general rates incl. t, volume, Heaviside, log) x both export flavours: double export must be "
      "textually identical up to the model id; the re-imported model must match the original in species, parameters, "
      "stoichiometry, all four rate forms at sampled states, seeded delay draws, and rule effects.",
      _TB + "; the guarded probes for the stochastic rate forms", "DESIGN.md section 4 C12, section 3.5")

claim("C18", "property-based testing: generated smooth networks, differential vs high-precision derivatives with scheme-specific Taylor bounds (Hypothesis)",
      "6k / 60k generated (network, state, parameter, scheme) cases: every Jacobian / sensitivity entry must lie within "
      "the Taylor remainder bound of the requested difference scheme around the 40-digit derivative of the reference "
      "rate equations (the observed error reaches > 30% of the bound in a third of the cases, so a wrong stencil, step, "
      "orientation or scheme label is visible); parameter dictionary unchanged; repeatable.",
      _TB + "; mpmath's numerical differentiation at 40 digits", "DESIGN.md section 4 C18")

claim("C15", "property-based testing: reference cost from the definition (independent integration) + metamorphic permutation / repetition relations (Hypothesis)",
      "4k / 40k generated inference setups (1..4 trajectories, 1..3 measurements, norm 1..3, per-trajectory grids, "
      "initial and parameter conditions, priors, theta sequences): exact data alignment of LL_data, cost vs reference "
      "log-prior minus p-norm of data minus DOP853 simulation (1e-5), -inf outside the support, repetition and "
      "permutation invariance; the stochastic cost against a replay of the identical seeded SSA runs.",
      _TB + "; scipy's DOP853; for the stochastic cost bioscrape's own SSA on fresh models", "DESIGN.md section 4 C15")

claim("C08", "property-based testing: generated call histories against a build-at-once reference (model-based, Hypothesis)",
      "10k (quick) / 150k (thorough) call histories (incremental edits in random order incl. temporary values and "
      "unknown names, py_initialize, seeded/unseeded simulations in eight modes, interface construction, simulations "
      "through remembered and stale interfaces, re-seeding) are executed on a real Model next to an abstract definition; "
      "every seeded simulation and 2..4 final modes are compared with a model built at once by the constructor "
      "(identical stochastic output, 1e-9 deterministic, also with permuted species declaration), two seeded runs are "
      "identical, dictionaries are unchanged by simulating, stale interfaces must raise or give the current result.  "
      "2.5k / 30k LineageModel histories (lineage rules and events added one at a time around initialisations and "
      "seeded lineage simulations) are compared with a LineageModel given the same definition at once.",
      _TB, "DESIGN.md section 4 C08")

claim("C17", "property-based testing: generated models / lineage models / result objects, clone round trip with behavioural comparator and seeded-simulation differential (Hypothesis)",
      "Plain models over every propensity, expression-node, delay and rule class (1.6k quick / 30k thorough), lineage "
      "models over every volume / division / death rule and event type and splitter option (700 / 12k) and result "
      "objects from real simulations (1.5k / 30k: SSAResult, DelaySSAResult + queue, VolumeSSAResult, cell states, "
      "Schnitz, Lineage, ExperimentalLineage, SingleCellSSAResult) are cloned by pickle protocols 2..5, deepcopy and "
      "chains of them, before and after edits and simulations, initialised or not; oracle: behavioural model comparator "
      "(incl. stochastic rate forms via the guarded probes), identical seeded simulations (deterministic, SSA, safe, "
      "volume, delay, single cell, lineage tree), seeded splitter partitions, event propensities and counts, identity "
      "and mutuality of mother/daughter links inside the restored object, and independence after edits on either side.",
      _TB + "; the guarded probes py_verif_* expose the cdef stochastic rate methods unchanged", "DESIGN.md section 4 C17")

claim("C19", "property-based testing: generated splitters / mother states and generated lineage models, exact partition and per-row invariants + statistical differential vs the binomial law (Hypothesis)",
      "4k (quick) / 60k (thorough) splitter configurations x mothers x repeated partitions with exact conservation / "
      "duplication / perfect-rounding / volume identities; 480 / 6000 configurations x 10k / 40k seeded partitions "
      "against Binomial(n, volume fraction) (chi-square or randomized PIT + KS, two-stage); 3k / 60k seeded lineages and "
      "2k / 40k single-cell runs over every growth / division / death mechanism incl. models whose total propensity is "
      "zero: mutual links, daughters = a valid partition of the mother's last row at her division time, contiguous time "
      "axes, positive volume and conserved per-cell totals on every row, growth law followed after reactions die out, "
      "truncation <=> division/death flag.", _TB, "DESIGN.md section 4 C19")
