# table of claimed checks; exec'd by gen_manifest.py  (claim(id, technique, level text, level note, design ref))
_TB = ("trusted base: the reference oracles in /verif/vf (scipy / sympy / mpmath / numpy computations written from the "
       "documentation), Hypothesis 6.168, CPython; the in-place build of /repo's working tree")

claim("C16", "property-based testing: differential vs scipy.stats log-densities (Hypothesis)",
      "Generated search over the seven prior families x parameters x values (interior, within 1e-3..1e-12 of a support "
      "boundary on either side, clearly outside) x 1..4 parameters x positive flag, compared with scipy.stats logpdf "
      "to 1e-9 and with the reject-outside-support rule, through PIDInterface.check_prior and the posterior of "
      "InferenceSetup.cost_function. 24k cases quick / 400k thorough; no absence claim beyond the generated cases.",
      _TB, "DESIGN.md section 4 C16")
