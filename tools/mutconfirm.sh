#!/bin/sh
# Confirm a seeded change and run checks against it, all in a scratch worktree:
#   tools/mutconfirm.sh <name> <patch.diff> <demo.py> <tier> <seed> <ID> [ID...]
# prints: CONFIRM <name> build=<ok|fail> tests=<n passed|fail> demo_with=<rc> demo_without=<rc>, then one MUTRUN line per check
name=$1; patch=$2; demo=$3; tier=$4; seed=$5; shift 5
d=/tmp/mr_$name
cd "$(dirname "$0")/.." || exit 2
git -C /repo worktree add --detach "$d" HEAD >/dev/null 2>&1 || { echo "cannot create $d"; exit 2; }
find "$d/bioscrape" "$d/lineage" "$d/setup.py" \( -name "*.pyx" -o -name "*.pxd" -o -name "setup.py" \) -exec touch -d "2020-01-01" {} +
cp -a /repo/bioscrape/*.cpp /repo/bioscrape/*.so "$d/bioscrape/"
cp -a /repo/lineage/*.cpp "$d/lineage/"
cp -a /repo/build "$d/build"
if ! git -C "$d" apply "$patch"; then echo "CONFIRM $name PATCH-FAILED"; git -C /repo worktree remove --force "$d"; exit 3; fi
mkdir -p "$d/_vout"
if VERIF_REPO=$d /venv/bin/python -m vf.build > "$d/_vout/build.log" 2>&1; then b=ok; else b=fail; fi
if [ $b = ok ]; then
  t=$(cd "$d" && env -u BIOSCRAPE_VERIF /venv/bin/python -m pytest -q -p no:cacheprovider --timeout=900 2>&1 | tail -1 | sed 's/ in .*//; s/,.*warnings//')
  (cd "$d/_vout" && PYTHONPATH=$d timeout 1200 /venv/bin/python "$demo" > demo_with.log 2>&1); dw=$?
  (cd "$d/_vout" && timeout 1200 /venv/bin/python "$demo" > demo_without.log 2>&1); dwo=$?
else t=-; dw=-; dwo=-; fi
echo "CONFIRM $name build=$b tests=[$t] demo_with=$dw demo_without=$dwo"
if [ $b = ok ]; then
for id in "$@"; do
  t0=$(date +%s)
  VERIF_REPO=$d VERIF_OUT=$d/_vout VERIF_SEED=$seed ./check $id --tier $tier > "$d/_vout/$id.log" 2>&1
  rc=$?
  sigs=$(grep "root cause" "$d/_vout/$id.log" | sed 's/.*root cause: //' | tr '\n' ';' | cut -c1-300)
  echo "MUTRUN $name $id seed=$seed rc=$rc wall=$(( $(date +%s) - t0 ))s $sigs"
  [ $rc -eq 2 ] && tail -5 "$d/_vout/$id.log"
done
fi
mkdir -p /tmp/mutlogs
for f in "$d"/_vout/*.log; do cp "$f" "/tmp/mutlogs/${name}_$(basename $f)"; done
git -C /repo worktree remove --force "$d"
